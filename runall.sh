#!/bin/bash
# runall.sh [quick|thorough] [ids...]: run checks one after another, print a summary table
TIER="${1:-quick}"; shift
IDS="$@"; [ -z "$IDS" ] && IDS="C01 C02 C03 C04 C05 C06 C07 C08 C09 C10 C11 C12 C13 C14 C15 C16 C17 C18 C19 C20"
mkdir -p /verif/logs
for id in $IDS; do
  s=$(date +%s)
  ./check $id $TIER > /verif/logs/$id.$TIER.log 2>&1
  rc=$?
  e=$(date +%s)
  printf "%s rc=%d %3ds viol=%d known=%d  %s\n" $id $rc $((e-s)) $(grep -c '^VIOLATION' /verif/logs/$id.$TIER.log) $(grep -c '^KNOWN-FINDING' /verif/logs/$id.$TIER.log) "$(grep -m1 'signature=' /verif/logs/$id.$TIER.log | cut -c1-110)"
done
