package main

import (
	"encoding/json"
	"fmt"
	"math/rand"
	"os"
	"strings"
	"sync"

	"github.com/weedbox/pokerface"
	"github.com/weedbox/pokerface/table"
)

// --- seat manager checks ----------------------------------------------------------------------

func seatScripted() []SeatCase {
	return []SeatCase{
		{Max: 3, Text: "J0 S0 J2 S2 N J1 S1 L0 L2 N"},                                                 // one playable seat left after waiting players are let in
		{Max: 3, Text: "L-1 L3 S9 R-4 J3 J-2 N"},                                                      // out-of-range ids
		{Max: 4, Text: "J0 S0 J1 S1 J2 S2 J3 S3 J-1 J2 N N N N"},                                      // full table
		{Max: 6, Text: "J0 S0 J2 S2 J3 S3 N J1 S1 N N N"},                                             // join between dealer and big blind
		{Max: 2, Text: "J0 S0 J1 S1 N N N L0 N J0 S0 N"},                                              // heads-up
		{Max: 7, Text: "J4 S4 J5 S5 J3 J0 N L2 L2 N J5 J3 S3 N N J1 S1 R3 J2 S2 L0 L4 J0 S0 L4 R1 N"}, // heads-up blinds with a third player let in
		{Max: 5, Text: "J0 S0 J1 N J2 S2 N S1 N N R0 N S0 N"},                                         // reserve / sit-in round trips
	}
}

func runSeatChecks(ctx *RunCtx, rep *Report, prop string, props []string, nHist, nBetween int, engine bool) {
	scripted := seatScripted()
	runCases(ctx, rep, 80, len(scripted)+nHist, func(i int, r *rand.Rand, local *Report) {
		var max int
		var ops []SeatOp
		if i < len(scripted) {
			max, ops = scripted[i].Max, parseSeatHistory(scripted[i].Text)
			local.Inc("scripted_histories")
		} else {
			max = 2 + r.Intn(9)
			ops = genSeatHistory(r, max)
		}
		s := newSeatRun(prop, props, max, local, ctx.Seed, i, r)
		s.engine = engine && r.Intn(4) == 0
		runSeatHistory(s, ops)
		if i%5000 == 11 {
			local.Sample(&SeatCase{Max: max, Text: strings.Join(s.trace, " ")}, 3)
		}
	})
	runCases(ctx, rep, 82, nHist/2, func(i int, r *rand.Rand, local *Report) {
		max := 3 + r.Intn(8)
		s := newSeatRun(prop, props, max, local, ctx.Seed, i, r)
		runCollapse(s, r)
		if i%5000 == 11 {
			local.Sample(&SeatCase{Max: max, Text: strings.Join(s.trace, " ")}, 4)
		}
	})
	if nBetween > 0 {
		runCases(ctx, rep, 81, nBetween, func(i int, r *rand.Rand, local *Report) {
			max := 3 + r.Intn(8)
			s := newSeatRun(prop, props, max, local, ctx.Seed, i, r)
			runJoinBetween(s, r)
			if i%5000 == 11 {
				local.Sample(&SeatCase{Max: max, Text: strings.Join(s.trace, " ")}, 3)
			}
		})
	}
}

func checkC08(ctx *RunCtx) int {
	rep := NewReport()
	runSeatChecks(ctx, rep, "C08", []string{"C08"}, ctx.N(60000, 2000000), ctx.N(40000, 1000000), true)
	// Next() while another goroutine keeps players sitting out and back in
	runCases(ctx, rep, 83, ctx.N(600, 12000), func(i int, r *rand.Rand, local *Report) {
		runNextUnderToggle("C08", local, ctx.Seed, i, r, 150)
	})
	return finish(ctx, rep, &CheckSpec{
		Prop: "C08", Level: "exploration", EvalCounter: "successful_next", NonTrivSet: "nontrivial08",
		Rule:        "random histories of join(any/specific/out-of-range)/sit-in/reserve/leave/next on tables of 2-10 seats plus targeted join-between scenarios; after every successful Next(): the three positions are on playable seats (occupied, active, not reserved - the set the table deals in), heads-up and 3+ blind rules; a deal-in watch armed when a player joins and sits in on a seat strictly between dealer and big blind that was empty when positions were assigned, disarmed by any other operation, requires 'dealt in iff the button has passed the seat'; a waiting watch states the same hand by hand - the players left waiting on closed seats between dealer and big blind by one assignment, if nobody else moves until the next, are not dealt in unless the button passed them (collapse scenarios with late sit-ins and quiet hands feed it); Next() is also called while another goroutine keeps one or two seated players sitting out and back in (or leaving and re-joining); with that goroutine parked, the positions must fit the playable set for some status the toggled seats could have had during the move (no sequential explanation otherwise); a quarter of the histories hand each position set to the real engine the way table.setupPosition/startGame do and require blinds and first actor on the expected seats. Non-trivial = distinct (table size, dealer, playable set)",
		Required:    []string{"class_heads_up_positions", "class_three_plus_positions", "deal_in_watches_armed", "deal_in_watches_resolved", "engine_handoffs", "concurrent_next_checked", "class_position_on_toggled_seat"},
		Assumptions: []string{"a seat vacated during the hand stays active and the button may land on it: outside the claim, the watch is not armed there", "the table object is timer/goroutine driven and its tests hang in this sandbox: its setupPosition/startGame logic is re-enacted, not run"},
	})
}

func checkC17(ctx *RunCtx) int {
	rep := NewReport()
	runSeatChecks(ctx, rep, "C17", []string{"C17"}, ctx.N(100000, 3000000), 0, false)
	// the button under a goroutine that keeps players sitting out and back in
	runCases(ctx, rep, 83, ctx.N(600, 12000), func(i int, r *rand.Rand, local *Report) {
		runNextUnderToggle("C17", local, ctx.Seed, i, r, 150)
	})
	return finish(ctx, rep, &CheckSpec{
		Prop: "C17", Level: "exploration", EvalCounter: "next_calls", NonTrivSet: "nontrivial17",
		Rule:     "random seat histories on tables of 2-10 seats; on every Next() with the playable set P taken before the call: |P|>=2 and a previous dealer => success and new dealer = first of P clockwise strictly after the previous dealer; fewer than two seated non-reserved players => never success; a failure must be the insufficient-players error; with |P|<2 a success must leave valid positions on >= 2 playable seats; a panic is a violation. The same two clauses are checked while another goroutine keeps one or two seated players sitting out and back in: with B the playable seats nobody touches, |B|>=2 => success, and the new dealer is the first clockwise of B plus some subset of the toggled seats. Non-trivial = distinct (table size, previous dealer, playable set) with a checked button move",
		Required: []string{"class_two_or_more_playable_before", "class_insufficient_even_with_waiting", "class_waiting_players_let_in", "button_moves_checked", "scripted_histories", "concurrent_next_checked"},
	})
}

func checkC18(ctx *RunCtx) int {
	rep := NewReport()
	runSeatChecks(ctx, rep, "C18", []string{"C18"}, ctx.N(60000, 1500000), 0, false)
	concBatch("C18", ctx.Seed, 180, ctx.N(3000, 100000), rep, ctx.Workers)
	// as many clients as seats, each taking any seat and leaving it again
	half := *ctx
	half.Workers = 4
	runCases(&half, rep, 184, ctx.N(400, 6000), func(i int, r *rand.Rand, local *Report) {
		runHoppers("C18", local, ctx.Seed, i, r)
	})
	extra := map[string]interface{}{}
	reports, pairs, out, ok, why := runRaceChild(ctx, "c18race", fmt.Sprint(ctx.Seed), fmt.Sprint(ctx.N(300, 4000)))
	if !ok {
		extra["race_run"] = "not run: " + why
	} else {
		rep.Add("race_detector_runs", 1)
		extra["race_reports"] = reports
		for _, line := range strings.Split(out, "\n") {
			if !strings.HasPrefix(line, "RESULT ") {
				continue
			}
			var res struct {
				Counters        map[string]int64        `json:"counters"`
				Violations      map[string][]*Violation `json:"violations"`
				ViolationCounts map[string]int64        `json:"violation_counts"`
			}
			if json.Unmarshal([]byte(line[7:]), &res) == nil {
				for k, v := range res.Counters {
					rep.Add("race_build_"+k, v)
				}
				for sig, vs := range res.Violations {
					for _, v := range vs {
						rep.Violate(v)
					}
					rep.ViolCount[sig] += res.ViolationCounts[sig] - int64(len(vs))
				}
			}
		}
		if reports > 0 {
			for p, n := range pairs {
				rep.Violate(&Violation{Prop: "C18", Rule: "C18/data-race", Cause: p, Msg: fmt.Sprintf("race detector: %d report(s) between %s during concurrent Join/Leave/GetPlayerCount", n, p), Kind: "conc", Case: firstLines(out, 40)})
				rep.ViolCount["C18/data-race|"+p] += int64(n) - 1
			}
		}
	}
	return finish(ctx, rep, &CheckSpec{
		Prop: "C18", Level: "exploration", EvalCounter: "seat_operations", NonTrivSet: "nontrivial",
		Rule:        "sequential: random seat histories incl. out-of-range ids under recover(), a seat ledger after every call (joins minus leaves = seated, join lands on an empty in-range seat / the named seat / a non-reserved seat for 'any', refusals only when justified and without effect, joiner held out of play, leave frees exactly that seat). Concurrent: 8-32 goroutines on 2-5 seats doing Join(any)/Join(k)/Leave(k)/GetPlayerCount, <= 60 operations per history, recorded at the client boundary with one atomic clock and checked with porcupine against a sequential seat map, plus a final joins-minus-leaves ledger; the same workload runs in a -race build at GOMAXPROCS 2/4/16 and any race report is a violation. Non-trivial = distinct concurrent histories checked",
		Required:    []string{"class_contended_joins", "class_table_full_under_contention", "class_table_full", "class_out_of_range_id", "class_join_occupied_refused", "class_join_any_refused", "linearizable_histories", "race_detector_runs", "race_build_concurrent_histories"},
		Extra:       extra,
		Assumptions: []string{"Dealer()/SetDealer()/... read and write without the lock; the property quantifies over concurrent Join calls, so they are outside the concurrent alphabet", "porcupine decides only the recorded histories; the race detector only the executed schedule", "a checker timeout is counted (checker_timeouts) and is inconclusive for that history, never a violation"},
	})
}

// --- regulator checks -------------------------------------------------------------------------

// concurrentRegulator runs the concurrent tournament world in this process and in the -race child and
// folds in the violations that belong to prop (C09: ledger, C19: capacity); a race report counts for both
func concurrentRegulator(ctx *RunCtx, rep *Report, prop string, extra map[string]interface{}) {
	tmp := NewReport()
	cworldBatch(ctx.Seed, 95, ctx.N(400, 8000), tmp, ctx.Workers)
	take := func(r *Report) {
		for k, v := range r.Counters {
			rep.Add(k, v)
		}
		for sig, vs := range r.Viol {
			for _, v := range vs {
				if v.Prop == prop {
					rep.Violate(v)
					rep.ViolCount[sig] += r.ViolCount[sig] - 1
				}
			}
		}
		for _, s := range r.Samples {
			rep.Sample(s, 6)
		}
	}
	take(tmp)
	reports, pairs, out, ok, why := runRaceChild(ctx, "c09race", fmt.Sprint(ctx.Seed), fmt.Sprint(ctx.N(60, 600)))
	if !ok {
		extra["race_run"] = "not run: " + why
		return
	}
	rep.Add("race_detector_runs", 1)
	extra["race_reports"] = reports
	for _, line := range strings.Split(out, "\n") {
		if !strings.HasPrefix(line, "RESULT ") {
			continue
		}
		var res struct {
			Counters        map[string]int64        `json:"counters"`
			Violations      map[string][]*Violation `json:"violations"`
			ViolationCounts map[string]int64        `json:"violation_counts"`
		}
		if json.Unmarshal([]byte(line[7:]), &res) == nil {
			for k, v := range res.Counters {
				rep.Add("race_build_"+k, v)
			}
			for sig, vs := range res.Violations {
				for _, v := range vs {
					if v.Prop == prop {
						rep.Violate(v)
						rep.ViolCount[sig] += res.ViolationCounts[sig] - 1
					}
				}
			}
		}
	}
	for p, n := range pairs {
		if prop == "C20" {
			break // races are reported under C09/C19; C20 looks at what the concurrent phase does to convergence
		}
		rep.Violate(&Violation{Prop: prop, Rule: prop + "/data-race", Cause: p, Msg: fmt.Sprintf("race detector: %d report(s) between %s while registrations, syncs and releases run on different goroutines", n, p), Kind: "conc", Case: firstLines(out, 40)})
		rep.ViolCount[prop+"/data-race|"+p] += int64(n) - 1
	}
}

func worldScripted() []struct {
	max, min int
	steps    string
} {
	return []struct {
		max, min int
		steps    string
	}{
		{5, 5, "status1 add6 add6 sync0,3 add3 add3"},
		{9, 6, "add20 status1 add35 sync0,0 sync1,0"},
		{9, 6, "add27 status1 sync0,3 sync1,2 sync2,1 status2 add4 sync0,2 sync1,2 sync2,2 sync0,3 sync1,3"},
		{4, 2, "status1 add1 add1 add9 sync0,1 nope sync1,1 sync2,1"},
	}
}

func runScriptedWorld(w *World, steps string) {
	defer func() {
		if e := recover(); e != nil {
			w.fail(w.prop+"/panic", "regulator", fmt.Sprintf("the regulator panicked: %v", e))
		}
	}()
	w.rep.Inc("histories")
	w.rep.Inc("scripted_histories")
	for _, f := range strings.Fields(steps) {
		if w.failed {
			return
		}
		switch {
		case strings.HasPrefix(f, "status"):
			var s int
			fmt.Sscan(f[6:], &s)
			w.setStatus(s)
		case strings.HasPrefix(f, "add"):
			var n int
			fmt.Sscan(f[3:], &n)
			w.add(n)
		case f == "nope":
			w.unknownTable()
		case strings.HasPrefix(f, "sync"):
			var k, out int
			fmt.Sscanf(f[4:], "%d,%d", &k, &out)
			if k < len(w.order) {
				w.sync(w.order[k], out)
				w.check("sync")
			}
		}
	}
	if !w.failed && len(w.tables) > 0 && w.status >= 1 {
		w.sweepCheck()
	}
}

func runWorldChecks(ctx *RunCtx, rep *Report, prop string, props []string, nShort, nLong int, withSweep bool) {
	scripted := worldScripted()
	runCases(ctx, rep, 90, len(scripted)+nShort, func(i int, r *rand.Rand, local *Report) {
		if i < len(scripted) {
			sc := scripted[i]
			w := newWorld(prop, props, sc.max, sc.min, local, ctx.Seed, i, r)
			runScriptedWorld(w, sc.steps)
			return
		}
		max, min := genSettings(r)
		if i%7 == 0 {
			// systematic settings grid: all 2 <= min <= max <= 10
			k := (i / 7) % 45
			for mx := 2; mx <= 10; mx++ {
				if k < mx-1 {
					max, min = mx, 2+k
					break
				}
				k -= mx - 1
			}
		}
		w := newWorld(prop, props, max, min, local, ctx.Seed, i, r)
		if i%9 == 4 {
			runWorldHoldDeadline(w, r, withSweep)
		} else {
			runWorldHistory(w, r, withSweep)
		}
		if i%4000 == 9 {
			tr := w.trace
			if len(tr) > 40 {
				tr = tr[:40]
			}
			local.Sample(&WorldCase{Max: max, Min: min, History: strings.Join(tr, " ")}, 3)
		}
	})
	runCases(ctx, rep, 91, nLong, func(i int, r *rand.Rand, local *Report) {
		max, min := genSettings(r)
		w := newWorld(prop, props, max, min, local, ctx.Seed, i, r)
		runWorldTournament(w, r)
	})
	// the same histories with a host that fails: one callback call in 2..9 returns an error (no table can
	// be opened, the table refuses the players). Fault injection at the only two points where the
	// regulator depends on its host.
	// (the regulator prints a line on standard output for every failed hand-over)
	stdout := os.Stdout
	if dn, err := os.OpenFile(os.DevNull, os.O_WRONLY, 0); err == nil {
		os.Stdout = dn
		defer func() { os.Stdout = stdout; dn.Close() }()
	}
	runCases(ctx, rep, 92, nShort/4+nLong/4, func(i int, r *rand.Rand, local *Report) {
		max, min := genSettings(r)
		w := newWorld(prop, props, max, min, local, ctx.Seed, i, r)
		w.faultRate = 2 + r.Intn(8)
		w.faultArmed = true
		local.Inc("histories_with_failing_host")
		switch {
		case i%40 == 7:
			runWorldTournament(w, r)
		case i%9 == 4:
			runWorldHoldDeadline(w, r, withSweep)
		default:
			runWorldHistory(w, r, withSweep)
		}
	})
}

func checkC09(ctx *RunCtx) int {
	rep := NewReport()
	runWorldChecks(ctx, rep, "C09", []string{"C09"}, ctx.N(40000, 300000), ctx.N(300, 5000), true)
	extra := map[string]interface{}{}
	concurrentRegulator(ctx, rep, "C09", extra)
	return finish(ctx, rep, &CheckSpec{
		Extra: extra,
		Prop:  "C09", Level: "exploration", EvalCounter: "quiescent_checks", NonTrivSet: "nontrivial",
		Rule:        "random tournament histories against a world of real tables that follow the regulator's instructions (registration batches 1..4*max and bursts of 300, pending -> running -> registration closed at random points, syncs with 0-3 eliminations on random tables, releases, breaks, unknown-table calls), all settings 2<=min<=max<=10 plus 9/6, and long tournaments down to the final table. After every completed step: every live player is in exactly one of {waiting queue (hook), one table}, nobody is handed out twice or after elimination, GetPlayerCount/GetTableCount/GetTable(id).PlayerCount equal the real numbers; unknown-table syncs (also the repeated last report of a broken table) and late registrations must be refused with the observable state unchanged. Histories include re-entries under the same id, registration batches that are windows of one roster array, names handed over in one message buffer that the caller overwrites and re-uses after every call, tables that keep the list they were handed, releases delivered late (players counted as in transit), a pause (status back to pending and forward) and players who bust and register again before their table has reported the bust (unreported eliminations are counted on the regulator's side until the report). A further block of histories runs with fault injection at the two host callbacks: one call in 2..9 of RequestTableFn / AssignPlayersFn returns an error; players named in a failed call count as bounced (the host knows them), everything else - nobody in two places, nobody else missing, player total, table count, per-table counts - is required as without faults. A concurrent world (registrars and table owners on different goroutines, ledger at quiescence; one tournament in three with the failing host during its concurrent phase) runs in-process and in a -race build. evaluations = quiescent-point checks; non-trivial = distinct histories",
		Required:    []string{"class_players_waiting", "class_registration_after_deadline", "class_unknown_table", "class_table_broken", "top_ups", "releases", "long_tournaments", "class_final_table_reached", "class_re_entry", "class_delayed_release", "class_paused", "class_late_report_of_broken_table", "class_caller_buffer_reused", "class_re_entry_before_the_bust_is_reported", "host_faults_injected", "class_open_refused_by_host", "class_assign_refused_by_host", "concurrent_quiescent_checks", "race_build_concurrent_quiescent_checks"},
		Assumptions: []string{"with a failing host the unchanged regulator does not queue the players of the failed call again; that loss is outside the property's quantifier (tables that follow its instructions) and is tolerated for exactly those players, named in the call the host failed", "ReleasePlayers never validates its table id and is legitimately called with the id of a table the regulator has just deleted; 'unknown table is refused' is asserted for SyncState/GetTable only", "tables follow the protocol of the repo's own tests: eliminate, report, seat the returned players, release exactly the requested number"},
	})
}

func checkC19(ctx *RunCtx) int {
	rep := NewReport()
	runWorldChecks(ctx, rep, "C19", []string{"C19"}, ctx.N(40000, 300000), ctx.N(300, 5000), false)
	extra := map[string]interface{}{}
	concurrentRegulator(ctx, rep, "C19", extra)
	return finish(ctx, rep, &CheckSpec{
		Extra: extra,
		Prop:  "C19", Level: "exploration", EvalCounter: "tables_opened", NonTrivSet: "nontrivial",
		Rule:     "the same tournament histories with the capacity monitor inside the callbacks: every list given to requestTableFn has at most max players, every table's real membership stays <= max after each assignPlayersFn / SyncState hand-out, no table is opened while pending or before min players have registered, every table opened by the initial allocation (the first ever) has >= min players; settings grid 2<=min<=max<=10, registrant counts around multiples of max, late batches above capacity, delayed releases, pauses, re-entries; a block of histories with fault injection at the host callbacks (one call in 2..9 fails), where a request for more than max players or a hand-over that would take a table above max counts whether or not the host then fails the call; the concurrent world (capacity at quiescence) in-process and in a -race build. evaluations = tables opened; non-trivial = distinct histories",
		Required: []string{"class_initial_allocation_tables", "class_initial_allocation_with_remainder", "class_late_batch_above_capacity", "class_late_tables", "assignments", "top_ups", "host_faults_injected", "class_open_refused_by_host", "class_assign_refused_by_host", "concurrent_quiescent_checks", "race_build_concurrent_quiescent_checks"},
	})
}

func checkC20(ctx *RunCtx) int {
	rep := NewReport()
	runWorldChecks(ctx, rep, "C20", []string{"C20"}, ctx.N(120000, 600000), ctx.N(300, 5000), true)
	extra := map[string]interface{}{}
	concurrentRegulator(ctx, rep, "C20", extra)
	return finish(ctx, rep, &CheckSpec{
		Extra: extra,
		Prop:  "C20", Level: "exploration", EvalCounter: "fixpoint_searches", NonTrivSet: "nontrivial20",
		Rule:        "from the end state of every random history and from checkpoints inside long tournaments (any phase after the start): sweeps that sync every table once - in a fresh random order every sweep, or fullest table first, or emptiest table first - with no eliminations, also while registration is on hold (status back to pending), and carry out all instructions, until a sweep asks for no release, hand-out or break; bounded by (tables at start + 8) sweeps - convergence is restated as bounded progress, the bound exposes oscillation and does not certify a constant; a table told to break must release its whole membership and each of those players must then be queued or seated elsewhere, and a table with players is never told to break while it is the only table; the searches also start from the end states of histories with fault injection at the host callbacks, with the faults stopped for the search; the concurrent world must settle by sweeps after its concurrent phase too. evaluations = fixpoint searches; non-trivial = distinct histories whose end state needed at least one rebalancing sweep; histogram of sweeps needed is in coverage.histograms",
		Required:    []string{"fixpoint_searches", "class_rebalancing_needed", "class_table_broken", "class_sweeps_fullest_table_first", "class_sweeps_emptiest_table_first", "class_sweeps_while_registration_on_hold", "class_fixpoint_search_after_host_faults"},
		Assumptions: []string{"liveness restated as bounded progress: no finite run decides 'eventually settles'"},
	})
}

// --- C07 race child: many goroutines, one shared backend ----------------------------------------

func c07RaceMain(seed int64, n int) int {
	nb := table.NewNativeBackend()
	var wg sync.WaitGroup
	var mu sync.Mutex
	hands, calls, diverged := 0, 0, 0
	for g := 0; g < 16; g++ {
		wg.Add(1)
		go func(g int) {
			defer wg.Done()
			for i := 0; i < n/16+1; i++ {
				r := caseRand(seed, int64(700+g), i)
				c := genCfg(r, GenOpts{})
				// sequential reference with a private game
				ref := pokerface.NewPokerFace().NewGame(c.Opts())
				if ref.Start() != nil {
					continue
				}
				copy(ref.GetState().Meta.Deck, c.Deck)
				st := cloneGS(ref.GetState())
				lc := 0
				ok := true
				for step := 0; step < 4000; step++ {
					s := ref.GetState()
					ev := s.Status.CurrentEvent
					if ev == "GameClosed" {
						break
					}
					var op Op
					if ev == "RoundStarted" {
						op = chooseAction(r, s, c, 0)
					} else {
						op = Op{Name: expectedTableOp(ev), Seat: -1}
					}
					e1 := applyOp(ref, op)
					s2, e2 := nbApply(nb, st, op)
					lc++
					if e2 == nil {
						st = s2
					}
					if (e1 == nil) != (e2 == nil) || snapJSON(st) != snapJSON(ref.GetState()) {
						ok = false
						break
					}
					if e1 != nil && op.Name != "bet" && op.Name != "raise" {
						break
					}
				}
				mu.Lock()
				hands++
				calls += lc
				if !ok {
					diverged++
				}
				mu.Unlock()
			}
		}(g)
	}
	wg.Wait()
	fmt.Printf("hands=%d calls=%d\n", hands, calls)
	if diverged > 0 {
		fmt.Printf("DIVERGED %d hands\n", diverged)
	}
	return 0
}

// --- C06/C14 race child: independent hands on several goroutines -------------------------------

// handsRaceMain plays whole hands (start, shuffle, deal, bet, evaluate, settle) on 8 goroutines at the
// same time; independent games share nothing by design, so the race detector must stay silent and no
// hand may panic
func handsRaceMain(seed int64, n int) int {
	var wg sync.WaitGroup
	total := NewReport()
	for g := 0; g < 8; g++ {
		wg.Add(1)
		go func(g int) {
			defer wg.Done()
			local := NewReport()
			for i := 0; i < n/8+1; i++ {
				r := caseRand(seed, int64(600+g), i)
				c := genCfg(r, GenOpts{})
				h := &Hand{Prop: "C06", C: c, R: r, Rep: local, Seed: seed, CaseIdx: i}
				playHand(h, &raceMon{})
			}
			total.Merge(local)
		}(g)
	}
	wg.Wait()
	fmt.Printf("hands=%d closed=%d panics=%d stuck=%d\n", total.Counters["hands"], total.Counters["hands_closed"], total.Counters["hands_panicked"], total.Counters["hands_stuck"])
	for _, vs := range total.Viol {
		fmt.Printf("PANIC %s\n", firstLines(vs[0].Msg, 6))
	}
	return 0
}

type raceMon struct{ BaseMon }

func (m *raceMon) Panic(h *Hand, what string) {
	h.Rep.Inc("hands_panicked")
	h.Rep.Violate(&Violation{Prop: "C06", Rule: "C06/panic", Cause: "concurrent-hands", Msg: what})
}
