package main

import (
	"encoding/json"
	"fmt"
	"math/bits"
	"math/rand"
	"runtime"
	"sync"
	"sync/atomic"
	"time"

	"github.com/anishathalye/porcupine"
	sm "github.com/weedbox/pokerface/seat_manager"
)

// Concurrent seat histories, recorded at the client boundary and checked for linearizability
// against a sequential seat map.

type seatIn struct {
	Kind byte // 'J' join, 'L' leave, 'C' count
	Seat int
	Max  int
}

type seatOut struct {
	Seat int
	OK   bool
	N    int
}

var seatModel = porcupine.Model{
	Init: func() interface{} { return uint32(0) },
	Step: func(state, input, output interface{}) (bool, interface{}) {
		st := state.(uint32)
		in := input.(seatIn)
		out := output.(seatOut)
		full := uint32(1)<<uint(in.Max) - 1
		switch in.Kind {
		case 'J':
			if in.Seat >= in.Max || in.Seat < -1 {
				return !out.OK, st
			}
			if in.Seat >= 0 {
				bit := uint32(1) << uint(in.Seat)
				if out.OK {
					return st&bit == 0 && out.Seat == in.Seat, st | bit
				}
				return st&bit != 0, st
			}
			if out.OK {
				if out.Seat < 0 || out.Seat >= in.Max {
					return false, st
				}
				bit := uint32(1) << uint(out.Seat)
				return st&bit == 0, st | bit
			}
			return st == full, st
		case 'L':
			if in.Seat < 0 || in.Seat >= in.Max {
				return !out.OK, st
			}
			bit := uint32(1) << uint(in.Seat)
			if out.OK {
				return st&bit != 0, st &^ bit
			}
			return st&bit == 0, st
		case 'C':
			return out.N == bits.OnesCount32(st), st
		}
		return false, st
	},
	DescribeOperation: func(input, output interface{}) string {
		in, out := input.(seatIn), output.(seatOut)
		switch in.Kind {
		case 'J':
			return fmt.Sprintf("Join(%d) -> seat %d ok=%v", in.Seat, out.Seat, out.OK)
		case 'L':
			return fmt.Sprintf("Leave(%d) -> ok=%v", in.Seat, out.OK)
		}
		return fmt.Sprintf("Count() -> %d", out.N)
	},
}

type concHistory struct {
	Max        int      `json:"max"`
	Goroutines int      `json:"goroutines"`
	Ops        []string `json:"operations"` // client, call, return, description
}

type concResult struct {
	ops       []porcupine.Operation
	panics    []string
	contended bool
	fullSeen  bool
	finalOK   bool
	finalMsg  string
}

// runConcHistory: G goroutines x few seats, at most ~60 operations
func runConcHistory(r *rand.Rand, max, G, perG int, mixed bool) *concResult {
	m := sm.NewSeatManager(max)
	var clock int64
	res := &concResult{}
	var mu sync.Mutex
	var wg sync.WaitGroup
	start := make(chan struct{})
	// pre-fill some seats sequentially (recorded as part of the history, client -1 not needed: do it before the clock starts by using the model's init? keep it simple: record them)
	plans := make([][]seatIn, G)
	for g := 0; g < G; g++ {
		for k := 0; k < perG; k++ {
			var in seatIn
			switch x := r.Intn(10); {
			case x < 3:
				in = seatIn{'J', -1, max}
			case x < 6:
				in = seatIn{'J', r.Intn(max), max}
			case x < 8:
				in = seatIn{'L', r.Intn(max), max}
			case x < 9:
				in = seatIn{'C', 0, max}
			default:
				in = seatIn{'J', r.Intn(max+4) - 2, max}
			}
			if mixed && r.Intn(3) == 0 {
				// the other public mutators and readers, racing with joins and leaves (not part of the
				// linearizability model: these histories are checked by the race detector, recover() and the ledger)
				in = seatIn{[]byte{'S', 'R', 'N', 'P', 'A'}[r.Intn(5)], r.Intn(max), max}
			}
			plans[g] = append(plans[g], in)
		}
	}
	yield := make([]int, G)
	for g := range yield {
		yield[g] = r.Intn(4)
	}
	for g := 0; g < G; g++ {
		wg.Add(1)
		go func(g int) {
			defer wg.Done()
			<-start
			local := make([]porcupine.Operation, 0, perG)
			for k, in := range plans[g] {
				for y := 0; y < yield[g]; y++ {
					runtime.Gosched()
				}
				var out seatOut
				var pan interface{}
				call := atomic.AddInt64(&clock, 1)
				func() {
					defer func() { pan = recover() }()
					switch in.Kind {
					case 'J':
						sid, err := m.Join(in.Seat, fmt.Sprintf("g%d-%d", g, k))
						out = seatOut{Seat: sid, OK: err == nil}
					case 'L':
						err := m.Leave(in.Seat)
						out = seatOut{OK: err == nil}
					case 'C':
						out = seatOut{N: m.GetPlayerCount()}
					case 'S':
						m.Seat(in.Seat)
					case 'R':
						m.Reserve(in.Seat)
					case 'N':
						m.Next()
					case 'P':
						_ = m.GetPlayableSeatCount() + m.GetAvailableSeatCount()
					case 'A':
						m.GetAvailableSeats()
					}
				}()
				ret := atomic.AddInt64(&clock, 1)
				if pan != nil {
					mu.Lock()
					res.panics = append(res.panics, fmt.Sprintf("%c%d: %v", in.Kind, in.Seat, pan))
					mu.Unlock()
					continue // outcome unknown: not recorded (the seat ledger below still sees its effect)
				}
				local = append(local, porcupine.Operation{ClientId: g, Input: in, Call: call, Output: out, Return: ret})
			}
			mu.Lock()
			res.ops = append(res.ops, local...)
			mu.Unlock()
		}(g)
	}
	close(start)
	wg.Wait()
	// final-state ledger: successful joins minus leaves per seat must match what the manager shows
	net := make([]int, max)
	total := 0
	for _, op := range res.ops {
		in, out := op.Input.(seatIn), op.Output.(seatOut)
		if in.Kind == 'J' && out.OK && out.Seat >= 0 && out.Seat < max {
			net[out.Seat]++
			total++
		}
		if in.Kind == 'L' && out.OK && in.Seat >= 0 && in.Seat < max {
			net[in.Seat]--
			total--
		}
		if in.Kind == 'J' && !out.OK && in.Seat == -1 {
			res.fullSeen = true
		}
	}
	res.finalOK = true
	if len(res.panics) == 0 {
		seats := m.GetSeats()
		for i, s := range seats {
			occ := 0
			if s.Player != nil {
				occ = 1
			}
			if net[i] != occ {
				res.finalOK = false
				res.finalMsg = fmt.Sprintf("seat %d: successful joins minus leaves = %d, occupied = %d", i, net[i], occ)
			}
		}
		if c := m.GetPlayerCount(); c != total {
			res.finalOK = false
			res.finalMsg = fmt.Sprintf("seated players %d, successful joins minus leaves %d", c, total)
		}
	}
	// contention: two joins overlapping in time
	for i := range res.ops {
		a := res.ops[i]
		if a.Input.(seatIn).Kind != 'J' {
			continue
		}
		for j := i + 1; j < len(res.ops); j++ {
			b := res.ops[j]
			if b.Input.(seatIn).Kind == 'J' && a.ClientId != b.ClientId && a.Call < b.Return && b.Call < a.Return {
				res.contended = true
			}
		}
	}
	return res
}

func describeHistory(max, G int, ops []porcupine.Operation) *concHistory {
	h := &concHistory{Max: max, Goroutines: G}
	for _, op := range ops {
		h.Ops = append(h.Ops, fmt.Sprintf("client=%d call=%d return=%d %s", op.ClientId, op.Call, op.Return, seatModel.DescribeOperation(op.Input, op.Output)))
	}
	return h
}

// concBatch runs n concurrent histories and checks each
func concBatch(prop string, seed int64, stream int64, n int, rep *Report, parallel int) {
	var wg sync.WaitGroup
	var mu sync.Mutex
	idx := int64(-1)
	for w := 0; w < parallel; w++ {
		wg.Add(1)
		go func() {
			defer wg.Done()
			local := NewReport()
			for {
				i := int(atomic.AddInt64(&idx, 1))
				if i >= n {
					break
				}
				r := caseRand(seed, stream, i)
				max := 2 + r.Intn(4)
				G := 8 + r.Intn(25)
				perG := 1 + r.Intn(3)
				for G*perG > 60 {
					G--
				}
				mixed := i%5 == 4
				res := runConcHistory(r, max, G, perG, mixed)
				local.Inc("concurrent_histories")
				if mixed {
					local.Inc("concurrent_histories_mixed_operations")
				}
				local.Add("concurrent_operations", int64(len(res.ops)))
				if res.contended {
					local.Inc("class_contended_joins")
				}
				if res.fullSeen {
					local.Inc("class_table_full_under_contention")
				}
				hist := describeHistory(max, G, res.ops)
				for _, p := range res.panics {
					local.Violate(&Violation{Prop: prop, Rule: "C18/panic", Cause: "concurrent", Msg: "seat operation panicked under concurrency: " + p, Kind: "conc", Case: hist, Seed: seed, CaseIndex: i})
				}
				if !res.finalOK {
					local.Violate(&Violation{Prop: prop, Rule: "C18/concurrent-ledger", Cause: "concurrent", Msg: res.finalMsg, Kind: "conc", Case: hist, Seed: seed, CaseIndex: i})
					continue
				}
				if len(res.panics) > 0 {
					continue
				}
				if mixed {
					local.Inc("mixed_histories_ledger_ok")
					continue
				}
				r2 := porcupine.CheckOperationsTimeout(seatModel, res.ops, 20*time.Second)
				switch r2 {
				case porcupine.Ok:
					local.Inc("linearizable_histories")
					local.Seen("nontrivial", fmt.Sprint(hist.Ops))
				case porcupine.Illegal:
					local.Violate(&Violation{Prop: prop, Rule: "C18/not-linearizable", Cause: "concurrent", Msg: fmt.Sprintf("history of %d concurrent Join/Leave/Count operations on %d seats has no sequential explanation (double booking, lost join or wrong count)", len(res.ops), max), Kind: "conc", Case: hist, Seed: seed, CaseIndex: i})
				default:
					local.Inc("checker_timeouts")
				}
				if i%500 == 0 {
					h := *hist
					if len(h.Ops) > 12 {
						h.Ops = h.Ops[:12]
					}
					local.Sample(&h, 2)
				}
			}
			mu.Lock()
			rep.Merge(local)
			mu.Unlock()
		}()
	}
	wg.Wait()
}

// c18RaceMain is the body of the -race child: the same concurrent workload, repeated for several
// GOMAXPROCS values; prints a JSON report on stdout
func c18RaceMain(seed int64, n int) int {
	rep := NewReport()
	for k, procs := range []int{2, 4, 16} {
		old := runtime.GOMAXPROCS(procs)
		concBatch("C18", seed, int64(1800+k), n, rep, 4)
		runtime.GOMAXPROCS(old)
	}
	out := map[string]interface{}{"counters": rep.Counters, "violations": rep.Viol, "violation_counts": rep.ViolCount}
	b, _ := json.Marshal(out)
	fmt.Println("RESULT " + string(b))
	return 0
}
