package main

import (
	"encoding/json"
	"fmt"
	"math/bits"
	"math/rand"
	"runtime"
	"sync"
	"sync/atomic"
	"time"

	"github.com/anishathalye/porcupine"
	sm "github.com/weedbox/pokerface/seat_manager"
)

// Concurrent seat histories, recorded at the client boundary and checked for linearizability
// against a sequential seat map.

type seatIn struct {
	Kind byte // 'J' join, 'L' leave, 'C' count
	Seat int
	Max  int
}

type seatOut struct {
	Seat int
	OK   bool
	N    int
}

var seatModel = porcupine.Model{
	Init: func() interface{} { return uint32(0) },
	Step: func(state, input, output interface{}) (bool, interface{}) {
		st := state.(uint32)
		in := input.(seatIn)
		out := output.(seatOut)
		full := uint32(1)<<uint(in.Max) - 1
		switch in.Kind {
		case 'J':
			if in.Seat >= in.Max || in.Seat < -1 {
				return !out.OK, st
			}
			if in.Seat >= 0 {
				bit := uint32(1) << uint(in.Seat)
				if out.OK {
					return st&bit == 0 && out.Seat == in.Seat, st | bit
				}
				return st&bit != 0, st
			}
			if out.OK {
				if out.Seat < 0 || out.Seat >= in.Max {
					return false, st
				}
				bit := uint32(1) << uint(out.Seat)
				return st&bit == 0, st | bit
			}
			return st == full, st
		case 'L':
			if in.Seat < 0 || in.Seat >= in.Max {
				return !out.OK, st
			}
			bit := uint32(1) << uint(in.Seat)
			if out.OK {
				return st&bit != 0, st &^ bit
			}
			return st&bit == 0, st
		case 'C':
			return out.N == bits.OnesCount32(st), st
		}
		return false, st
	},
	DescribeOperation: func(input, output interface{}) string {
		in, out := input.(seatIn), output.(seatOut)
		switch in.Kind {
		case 'J':
			return fmt.Sprintf("Join(%d) -> seat %d ok=%v", in.Seat, out.Seat, out.OK)
		case 'L':
			return fmt.Sprintf("Leave(%d) -> ok=%v", in.Seat, out.OK)
		}
		return fmt.Sprintf("Count() -> %d", out.N)
	},
}

type concHistory struct {
	Max        int      `json:"max"`
	Goroutines int      `json:"goroutines"`
	Ops        []string `json:"operations"` // client, call, return, description
}

type concResult struct {
	ops       []porcupine.Operation
	panics    []string
	contended bool
	fullSeen  bool
	finalOK   bool
	finalMsg  string
}

// runConcHistory: G goroutines x few seats, at most ~60 operations
func runConcHistory(r *rand.Rand, max, G, perG int, mixedKind int) *concResult {
	mixed := mixedKind > 0
	m := sm.NewSeatManager(max)
	// histories with restores: a snapshot of a table with players sat in but no hand played yet (no
	// dealer) is taken first and applied again at random points of the concurrent phase
	var saved *sm.SeatManagerState
	if mixedKind == 2 {
		for i := 0; i < max && i < 3; i++ {
			m.Join(i, fmt.Sprintf("early%d", i))
			m.Seat(i)
		}
		saved = &sm.SeatManagerState{Max: max, Seats: map[int]*sm.Seat{}, Dealer: -1, SB: -1, BB: -1}
		for _, x := range m.GetSeats() {
			c := *x
			saved.Seats[x.ID] = &c
		}
	}
	var clock int64
	res := &concResult{}
	var mu sync.Mutex
	var wg sync.WaitGroup
	start := make(chan struct{})
	// pre-fill some seats sequentially (recorded as part of the history, client -1 not needed: do it before the clock starts by using the model's init? keep it simple: record them)
	plans := make([][]seatIn, G)
	for g := 0; g < G; g++ {
		for k := 0; k < perG; k++ {
			var in seatIn
			switch x := r.Intn(10); {
			case x < 3:
				in = seatIn{'J', -1, max}
			case x < 6:
				in = seatIn{'J', r.Intn(max), max}
			case x < 8:
				in = seatIn{'L', r.Intn(max), max}
			case x < 9:
				in = seatIn{'C', 0, max}
			default:
				in = seatIn{'J', r.Intn(max+4) - 2, max}
			}
			if mixed && r.Intn(3) == 0 {
				// the other public mutators and readers, racing with joins and leaves (not part of the
				// linearizability model: these histories are checked by the race detector, recover() and the ledger)
				in = seatIn{[]byte{'S', 'R', 'N', 'P', 'A'}[r.Intn(5)], r.Intn(max), max}
				if mixedKind == 2 && r.Intn(2) == 0 {
					in = seatIn{[]byte{'X', 'N', 'N'}[r.Intn(3)], 0, max}
				}
			}
			plans[g] = append(plans[g], in)
		}
	}
	yield := make([]int, G)
	for g := range yield {
		yield[g] = r.Intn(4)
	}
	for g := 0; g < G; g++ {
		wg.Add(1)
		go func(g int) {
			defer wg.Done()
			<-start
			local := make([]porcupine.Operation, 0, perG)
			for k, in := range plans[g] {
				for y := 0; y < yield[g]; y++ {
					runtime.Gosched()
				}
				var out seatOut
				var pan interface{}
				call := atomic.AddInt64(&clock, 1)
				func() {
					defer func() { pan = recover() }()
					switch in.Kind {
					case 'J':
						sid, err := m.Join(in.Seat, fmt.Sprintf("g%d-%d", g, k))
						out = seatOut{Seat: sid, OK: err == nil}
					case 'L':
						err := m.Leave(in.Seat)
						out = seatOut{OK: err == nil}
					case 'C':
						out = seatOut{N: m.GetPlayerCount()}
					case 'S':
						m.Seat(in.Seat)
					case 'R':
						m.Reserve(in.Seat)
					case 'N':
						m.Next()
					case 'X':
						m.ApplyStates(saved)
					case 'P':
						_ = m.GetPlayableSeatCount() + m.GetAvailableSeatCount()
					case 'A':
						m.GetAvailableSeats()
					}
				}()
				ret := atomic.AddInt64(&clock, 1)
				if pan != nil {
					mu.Lock()
					res.panics = append(res.panics, fmt.Sprintf("%c%d: %v", in.Kind, in.Seat, pan))
					mu.Unlock()
					continue // outcome unknown: not recorded (the seat ledger below still sees its effect)
				}
				local = append(local, porcupine.Operation{ClientId: g, Input: in, Call: call, Output: out, Return: ret})
			}
			mu.Lock()
			res.ops = append(res.ops, local...)
			mu.Unlock()
		}(g)
	}
	close(start)
	wg.Wait()
	// final-state ledger: successful joins minus leaves per seat must match what the manager shows
	net := make([]int, max)
	total := 0
	for _, op := range res.ops {
		in, out := op.Input.(seatIn), op.Output.(seatOut)
		if in.Kind == 'J' && out.OK && out.Seat >= 0 && out.Seat < max {
			net[out.Seat]++
			total++
		}
		if in.Kind == 'L' && out.OK && in.Seat >= 0 && in.Seat < max {
			net[in.Seat]--
			total--
		}
		if in.Kind == 'J' && !out.OK && in.Seat == -1 {
			res.fullSeen = true
		}
	}
	res.finalOK = true
	if len(res.panics) == 0 && mixedKind != 2 {
		seats := m.GetSeats()
		for i, s := range seats {
			occ := 0
			if s.Player != nil {
				occ = 1
			}
			if net[i] != occ {
				res.finalOK = false
				res.finalMsg = fmt.Sprintf("seat %d: successful joins minus leaves = %d, occupied = %d", i, net[i], occ)
			}
		}
		if c := m.GetPlayerCount(); c != total {
			res.finalOK = false
			res.finalMsg = fmt.Sprintf("seated players %d, successful joins minus leaves %d", c, total)
		}
	}
	// contention: two joins overlapping in time
	for i := range res.ops {
		a := res.ops[i]
		if a.Input.(seatIn).Kind != 'J' {
			continue
		}
		for j := i + 1; j < len(res.ops); j++ {
			b := res.ops[j]
			if b.Input.(seatIn).Kind == 'J' && a.ClientId != b.ClientId && a.Call < b.Return && b.Call < a.Return {
				res.contended = true
			}
		}
	}
	return res
}

func describeHistory(max, G int, ops []porcupine.Operation) *concHistory {
	h := &concHistory{Max: max, Goroutines: G}
	for _, op := range ops {
		h.Ops = append(h.Ops, fmt.Sprintf("client=%d call=%d return=%d %s", op.ClientId, op.Call, op.Return, seatModel.DescribeOperation(op.Input, op.Output)))
	}
	return h
}

// concBatch runs n concurrent histories and checks each
func concBatch(prop string, seed int64, stream int64, n int, rep *Report, parallel int) {
	var wg sync.WaitGroup
	var mu sync.Mutex
	idx := int64(-1)
	for w := 0; w < parallel; w++ {
		wg.Add(1)
		go func() {
			defer wg.Done()
			local := NewReport()
			for {
				i := int(atomic.AddInt64(&idx, 1))
				if i >= n {
					break
				}
				r := caseRand(seed, stream, i)
				max := 2 + r.Intn(4)
				G := 8 + r.Intn(25)
				perG := 1 + r.Intn(3)
				for G*perG > 60 {
					G--
				}
				mixedKind := 0
				if i%5 == 4 {
					mixedKind = 1
				} else if i%5 == 3 && i%2 == 0 {
					mixedKind = 2
				}
				mixed := mixedKind > 0
				res := runConcHistory(r, max, G, perG, mixedKind)
				local.Inc("concurrent_histories")
				if mixed {
					local.Inc("concurrent_histories_mixed_operations")
				}
				if mixedKind == 2 {
					local.Inc("concurrent_histories_with_restores")
				}
				local.Add("concurrent_operations", int64(len(res.ops)))
				if res.contended {
					local.Inc("class_contended_joins")
				}
				if res.fullSeen {
					local.Inc("class_table_full_under_contention")
				}
				hist := describeHistory(max, G, res.ops)
				for _, p := range res.panics {
					local.Violate(&Violation{Prop: prop, Rule: "C18/panic", Cause: "concurrent", Msg: "seat operation panicked under concurrency: " + p, Kind: "conc", Case: hist, Seed: seed, CaseIndex: i})
				}
				if !res.finalOK {
					local.Violate(&Violation{Prop: prop, Rule: "C18/concurrent-ledger", Cause: "concurrent", Msg: res.finalMsg, Kind: "conc", Case: hist, Seed: seed, CaseIndex: i})
					continue
				}
				if len(res.panics) > 0 {
					continue
				}
				if mixed {
					local.Inc("mixed_histories_ledger_ok")
					continue
				}
				r2 := porcupine.CheckOperationsTimeout(seatModel, res.ops, 20*time.Second)
				switch r2 {
				case porcupine.Ok:
					local.Inc("linearizable_histories")
					local.Seen("nontrivial", fmt.Sprint(hist.Ops))
				case porcupine.Illegal:
					local.Violate(&Violation{Prop: prop, Rule: "C18/not-linearizable", Cause: "concurrent", Msg: fmt.Sprintf("history of %d concurrent Join/Leave/Count operations on %d seats has no sequential explanation (double booking, lost join or wrong count)", len(res.ops), max), Kind: "conc", Case: hist, Seed: seed, CaseIndex: i})
				default:
					local.Inc("checker_timeouts")
				}
				if i%500 == 0 {
					h := *hist
					if len(h.Ops) > 12 {
						h.Ops = h.Ops[:12]
					}
					local.Sample(&h, 2)
				}
			}
			mu.Lock()
			rep.Merge(local)
			mu.Unlock()
		}()
	}
	wg.Wait()
}

// runHoppers: as many clients as the table has seats, each holding at most one seat: take any seat,
// leave it, again. A client that asks for "any seat" holds none, so at most max-1 seats are taken at that
// moment and the request can never rightly be refused; nor can a client ever be given a seat that
// somebody else holds (checked through per-seat owner marks).
func runHoppers(prop string, rep *Report, seed int64, idx int, r *rand.Rand) {
	max := 2 + r.Intn(3)
	rounds := 200 + r.Intn(400)
	m := sm.NewSeatManager(max)
	owner := make([]int32, max)
	var refused, doubled int64
	var firstMsg atomic.Value
	var wg sync.WaitGroup
	start := make(chan struct{})
	for c := 0; c < max; c++ {
		wg.Add(1)
		go func(c int) {
			defer wg.Done()
			defer func() {
				if e := recover(); e != nil {
					firstMsg.CompareAndSwap(nil, fmt.Sprintf("client %d: panic: %v", c, e))
					atomic.AddInt64(&doubled, 1)
				}
			}()
			<-start
			for k := 0; k < rounds; k++ {
				sid, err := m.Join(-1, fmt.Sprintf("c%d", c))
				if err != nil {
					atomic.AddInt64(&refused, 1)
					firstMsg.CompareAndSwap(nil, fmt.Sprintf("client %d, round %d: Join(-1) refused (%v) on a table of %d seats shared by %d clients that hold at most one seat each", c, k, err, max, max))
					continue
				}
				if sid < 0 || sid >= max || !atomic.CompareAndSwapInt32(&owner[sid], 0, int32(c+1)) {
					atomic.AddInt64(&doubled, 1)
					firstMsg.CompareAndSwap(nil, fmt.Sprintf("client %d, round %d: Join(-1) returned seat %d which another client holds", c, k, sid))
					continue
				}
				if k%3 == 0 {
					runtime.Gosched()
				}
				atomic.StoreInt32(&owner[sid], 0)
				if err := m.Leave(sid); err != nil {
					atomic.AddInt64(&doubled, 1)
					firstMsg.CompareAndSwap(nil, fmt.Sprintf("client %d, round %d: Leave(%d) of the seat it holds refused: %v", c, k, sid, err))
				}
			}
		}(c)
	}
	close(start)
	wg.Wait()
	rep.Inc("hopper_scenarios")
	rep.Add("hopper_join_any_calls", int64(max*rounds))
	rep.Inc("oracle_evaluations")
	msg, _ := firstMsg.Load().(string)
	cs := map[string]interface{}{"seats": max, "clients": max, "rounds_per_client": rounds, "note": "not replayable step by step: re-run the check"}
	if refused > 0 {
		rep.Violate(&Violation{Prop: prop, Rule: "C18/join-any-refused-with-free-seat", Cause: "concurrent", Msg: fmt.Sprintf("%d of %d requests: %s", refused, max*rounds, msg), Kind: "conc", Case: cs, Seed: seed, CaseIndex: idx})
	} else if doubled > 0 {
		rep.Violate(&Violation{Prop: prop, Rule: "C18/double-booking", Cause: "concurrent-hoppers", Msg: msg, Kind: "conc", Case: cs, Seed: seed, CaseIndex: idx})
	}
}

// c18RaceMain is the body of the -race child: the same concurrent workload, repeated for several
// GOMAXPROCS values; prints a JSON report on stdout
func c18RaceMain(seed int64, n int) int {
	rep := NewReport()
	for k, procs := range []int{2, 4, 16} {
		old := runtime.GOMAXPROCS(procs)
		concBatch("C18", seed, int64(1800+k), n, rep, 4)
		runtime.GOMAXPROCS(old)
	}
	out := map[string]interface{}{"counters": rep.Counters, "violations": rep.Viol, "violation_counts": rep.ViolCount}
	b, _ := json.Marshal(out)
	fmt.Println("RESULT " + string(b))
	return 0
}
