package main

import (
	"fmt"
	"math/rand"
	"strings"

	"github.com/weedbox/pokerface"
	sm "github.com/weedbox/pokerface/seat_manager"
)

// Seat histories: J<k> join seat k (-1 any), S<k> sit in, R<k> reserve, L<k> leave, N next hand

type SeatOp struct {
	Kind byte `json:"k"`
	Seat int  `json:"s"`
	// Want: on replay, the seat a "join any seat" picked in the recorded run (the manager picks from a
	// map, so Go's randomised map order decides); 0 = not recorded, otherwise seat+1, -1 = refused
	Want int `json:"w,omitempty"`
}

func (o SeatOp) String() string {
	if o.Kind == 'X' && o.Seat == 1 {
		return "X1" // restore from a document without per-seat ids
	}
	if o.Kind == 'N' || o.Kind == 'X' || o.Kind == 'Z' || o.Kind == 'Y' {
		return string(o.Kind)
	}
	return fmt.Sprintf("%c%d", o.Kind, o.Seat)
}

type seatView struct{ occ, act, res bool }

// a checkpoint document the caller keeps and may apply again later, with the monitor's shadows at that time
type seatCheckpoint struct {
	doc    *sm.SeatManagerState
	joined int
	pid    int
	empty  []bool
	closed []bool
	// the seats touched between the last assignment and the checkpoint: a rollback brings those moves back
	touched []int
	// what the table looked like when the checkpoint was taken
	views   []seatView
	d, s, b int
}

func viewSeats(m *sm.SeatManager) []seatView {
	seats := m.GetSeats()
	out := make([]seatView, len(seats))
	for i, s := range seats {
		if s != nil {
			out[i] = seatView{s.Player != nil, s.IsActive, s.IsReserved}
		}
	}
	return out
}

func playableOf(v []seatView) []int {
	p := []int{}
	for i, s := range v {
		if s.occ && s.act && !s.res {
			p = append(p, i)
		}
	}
	return p
}

func inInts(xs []int, x int) bool {
	for _, y := range xs {
		if y == x {
			return true
		}
	}
	return false
}

func firstAfter(set []int, from, max int) int {
	for k := 1; k <= max; k++ {
		x := (from + k) % max
		if inInts(set, x) {
			return x
		}
	}
	return -1
}

// x strictly between a and b going clockwise
func strictlyBetween(a, x, b, max int) bool {
	if x == a || x == b {
		return false
	}
	dx := (x - a + max) % max
	db := (b - a + max) % max
	if db == 0 {
		db = max
	}
	return dx < db
}

type SeatCase struct {
	Max  int      `json:"max"`
	Ops  []SeatOp `json:"-"`
	Text string   `json:"history"`
}

type seatRun struct {
	prop   string
	props  map[string]bool // which monitors are on: C08 C17 C18
	max    int
	m      *sm.SeatManager
	trace  []string
	rep    *Report
	seed   int64
	idx    int
	failed bool
	joined int
	pid    int
	// C08 deal-in watch
	emptyAtAssign     []bool
	watchSeat         int
	watchPassed       bool
	justArmed         bool
	resetSeen         bool // Reset() re-creates the seat objects and leaves the position accessors on the old ones: no claim after it
	diverged          bool // replay only: a "join any seat" picked another seat than in the recorded run
	lostDealer        int  // dealer seat a restore failed to bring back (-1: none)
	kept              *seatCheckpoint
	touched           []int  // seats touched by join/leave/reserve/sit-in since positions were assigned
	closedAfterAssign []bool // seats the last assignment left inactive
	engine            bool   // integration step: hand the positions to the engine
	r                 *rand.Rand
	// C08 waiting watch: seats that the last assignment left occupied, closed and strictly between dealer
	// and big blind; nil once anybody else has moved
	waiting map[int]bool
}

func (s *seatRun) fail(rule, cause, msg string) {
	s.rep.Violate(&Violation{Prop: s.prop, Rule: rule, Cause: cause, Msg: msg, Kind: "seats",
		Case: &SeatCase{Max: s.max, Text: strings.Join(s.trace, " ")}, Seed: s.seed, CaseIndex: s.idx})
	s.failed = true
}

// onlyTouched: no seat other than x has been joined, left, reserved or sat in since the last assignment
func (s *seatRun) onlyTouched(x int) bool {
	for _, t := range s.touched {
		if t != x {
			return false
		}
	}
	return true
}

// PlayerInfo is an empty interface: strings, pointers, and values that Go cannot compare with ==
// (a struct with a slice, a map as a JSON-restored player would be)
func (s *seatRun) playerInfo() sm.PlayerInfo {
	id := fmt.Sprintf("p%d", s.pid)
	switch s.pid % 5 {
	case 1:
		return &struct{ ID string }{id}
	case 2:
		return struct {
			ID   string
			Tags []string
		}{id, []string{"x"}}
	case 3:
		return map[string]interface{}{"id": id}
	case 4:
		if s.pid%10 == 4 {
			// the same uncomparable value joining again (a player value kept by the caller)
			return struct {
				ID   string
				Tags []string
			}{"regular", []string{"x"}}
		}
	}
	return id
}

func dealerID(m *sm.SeatManager) int {
	if d := m.Dealer(); d != nil {
		return d.ID
	}
	return -1
}

// apply performs one seat operation under all enabled monitors
func (s *seatRun) apply(op SeatOp) {
	m := s.m
	pre := viewSeats(m)
	s.trace = append(s.trace, op.String())
	traceAt := len(s.trace) - 1
	s.rep.Inc("seat_operations")
	var pan interface{}
	var err error
	var sid int
	prevD := dealerID(m)
	if prevD < 0 && s.lostDealer >= 0 {
		prevD = s.lostDealer // a restore dropped the dealer: the button still has to move on from where it was
	}
	func() {
		defer func() { pan = recover() }()
		switch op.Kind {
		case 'X':
			// snapshot and restore through the public state document (a table brought back after a restart)
			st := &sm.SeatManagerState{Max: s.max, Seats: map[int]*sm.Seat{}, Dealer: -1, SB: -1, BB: -1}
			for _, x := range m.GetSeats() {
				c := *x
				st.Seats[x.ID] = &c
			}
			if d := m.Dealer(); d != nil {
				st.Dealer = d.ID
			}
			if d := m.SmallBlind(); d != nil {
				st.SB = d.ID
			}
			if d := m.BigBlind(); d != nil {
				st.BB = d.ID
			}
			if op.Seat == 1 {
				// a document written by another producer: the per-seat id (redundant with the map key) is left out
				for _, x := range st.Seats {
					x.ID = 0
				}
				s.rep.Inc("class_restore_document_without_seat_ids")
			}
			err = m.ApplyStates(st)
			if st.Dealer >= 0 && m.Dealer() == nil {
				s.lostDealer = st.Dealer
			}
			// the document belongs to the caller again: whatever it does with it must not reach the manager
			for _, x := range st.Seats {
				x.Player, x.IsActive, x.IsReserved = "ghost-of-the-restore-document", true, false
			}
			if s.kept == nil && err == nil {
				// a checkpoint the caller keeps: applied now, and possibly again later (rollback)
				k := &sm.SeatManagerState{Max: s.max, Seats: map[int]*sm.Seat{}, Dealer: -1, SB: -1, BB: -1}
				for _, x := range m.GetSeats() {
					c := *x
					k.Seats[x.ID] = &c
				}
				if d := m.Dealer(); d != nil {
					k.Dealer = d.ID
				}
				if d := m.SmallBlind(); d != nil {
					k.SB = d.ID
				}
				if d := m.BigBlind(); d != nil {
					k.BB = d.ID
				}
				if m.ApplyStates(k) == nil {
					s.kept = &seatCheckpoint{doc: k, joined: s.joined, pid: s.pid,
						empty: append([]bool{}, s.emptyAtAssign...), closed: append([]bool{}, s.closedAfterAssign...),
						touched: append(append([]int{}, s.touched...), -1),
						views:   viewSeats(m), d: k.Dealer, s: k.SB, b: k.BB}
				}
			}
		case 'Y':
			if s.kept != nil {
				err = m.ApplyStates(s.kept.doc)
				s.joined = s.kept.joined
				s.emptyAtAssign, s.closedAfterAssign = nil, nil
				if len(s.kept.empty) > 0 {
					s.emptyAtAssign = append([]bool{}, s.kept.empty...)
				}
				if len(s.kept.closed) > 0 {
					s.closedAfterAssign = append([]bool{}, s.kept.closed...)
				}
				s.rep.Inc("class_rollback_to_checkpoint")
			}
		case 'Z':
			m.Reset()
			s.joined = 0
			s.resetSeen = true
		case 'J':
			s.pid++
			sid, err = m.Join(op.Seat, s.playerInfo())
		case 'S':
			err = m.Seat(op.Seat)
		case 'R':
			err = m.Reserve(op.Seat)
		case 'L':
			err = m.Leave(op.Seat)
		case 'N':
			err = m.Next()
		}
	}()
	if pan != nil {
		if s.props["C18"] {
			s.fail("C18/panic", "op="+string(op.Kind), fmt.Sprintf("%s panicked: %v", op, pan))
		} else if s.props["C17"] && op.Kind == 'N' {
			s.fail("C17/panic", "op=N", fmt.Sprintf("Next() panicked: %v", pan))
		} else {
			s.rep.Inc("histories_ended_by_panic")
			s.failed = true
		}
		return
	}
	post := viewSeats(m)
	if op.Kind == 'J' && op.Seat == -1 {
		// which seat "any seat" turned out to be is part of the history (it is not a function of the state)
		got := sid + 1
		if err != nil {
			got = -1
		}
		s.trace[traceAt] = fmt.Sprintf("J-1>%d", got-1)
		if err != nil {
			s.trace[traceAt] = "J-1>x"
		}
		if op.Want != 0 && op.Want != got {
			s.diverged = true
			s.failed = true
			return
		}
	}
	switch op.Kind {
	case 'J':
		s.onJoin(op, pre, post, sid, err)
	case 'L':
		s.onLeave(op, pre, post, err)
	case 'S', 'R':
		if s.props["C18"] {
			if op.Seat < 0 || op.Seat >= s.max {
				s.rep.Inc("class_out_of_range_id")
				if err == nil {
					s.fail("C18/out-of-range-accepted", "op="+string(op.Kind), fmt.Sprintf("%s on a table of %d returned no error", op, s.max))
					return
				}
			}
			for i := range pre {
				if pre[i].occ != post[i].occ {
					s.fail("C18/occupancy-changed", "op="+string(op.Kind), fmt.Sprintf("%s changed who sits on seat %d", op, i))
					return
				}
			}
		}
	case 'N':
		s.onNext(pre, post, prevD, err)
	}
	if s.failed {
		return
	}
	if op.Kind != 'N' && s.waiting != nil && !(op.Kind == 'S' && s.waiting[op.Seat]) {
		s.waiting = nil // somebody else moved (or the table was restored): nothing is claimed for this hand
	}
	if op.Kind != 'N' && s.watchSeat >= 0 && !s.justArmed && !(op.Kind == 'S' && op.Seat == s.watchSeat) {
		// somebody moved: the deal-in claim ("other players staying put") no longer applies
		s.watchSeat = -1
	}
	s.justArmed = false
	if op.Kind == 'Y' && s.kept != nil && err == nil {
		// a rollback brings back the table of the checkpoint, however often the document is applied and
		// whatever happened to the table in between
		posID := func(x *sm.Seat) int {
			if x == nil {
				return -1
			}
			return x.ID
		}
		same := len(post) == len(s.kept.views)
		for i := 0; same && i < len(post); i++ {
			same = post[i] == s.kept.views[i]
		}
		if !same || posID(m.Dealer()) != s.kept.d || posID(m.SmallBlind()) != s.kept.s || posID(m.BigBlind()) != s.kept.b {
			s.fail(s.prop+"/rollback-differs", "op=Y", fmt.Sprintf("after applying the kept checkpoint document again the table is %v dealer %d sb %d bb %d; when the checkpoint was taken it was %v dealer %d sb %d bb %d (occupied, active, reserved per seat)", post, posID(m.Dealer()), posID(m.SmallBlind()), posID(m.BigBlind()), s.kept.views, s.kept.d, s.kept.s, s.kept.b))
			return
		}
		s.rep.Inc("rollbacks_compared_with_checkpoint")
	}
	if op.Kind == 'Y' {
		s.watchSeat = -1
		if s.kept != nil {
			// the shadows were rolled back with the state, and so were the moves made before the checkpoint
			s.touched = append(s.touched[:0], s.kept.touched...)
			s.rep.Inc("class_restore_or_reset")
		} else {
			s.touched = append(s.touched, -1)
		}
	} else if op.Kind == 'X' || op.Kind == 'Z' {
		s.watchSeat = -1
		s.touched = append(s.touched, -1)
		s.rep.Inc("class_restore_or_reset")
		if op.Kind == 'Z' {
			s.emptyAtAssign, s.closedAfterAssign = nil, nil
		}
	} else if op.Kind != 'N' {
		t := op.Seat
		if op.Kind == 'J' && op.Seat == -1 {
			t = sid
			if err != nil {
				t = -1
			}
		}
		s.touched = append(s.touched, t)
	}
	if s.props["C18"] {
		s.rep.Inc("oracle_evaluations")
		if got := m.GetPlayerCount(); got != s.joined {
			s.fail("C18/count", "op="+string(op.Kind), fmt.Sprintf("seated players %d, successful joins minus leaves %d", got, s.joined))
			return
		}
		occ := 0
		for _, v := range post {
			if v.occ {
				occ++
			}
		}
		if occ != s.joined {
			s.fail("C18/count", "op="+string(op.Kind), fmt.Sprintf("occupied seats %d, successful joins minus leaves %d", occ, s.joined))
		}
	}
}

func (s *seatRun) onJoin(op SeatOp, pre, post []seatView, sid int, err error) {
	c18 := s.props["C18"]
	if err == nil {
		s.joined++
		if !c18 && (sid < 0 || sid >= s.max) {
			s.failed = true
			return
		}
	}
	if c18 {
		s.rep.Inc("oracle_evaluations")
		cause := "join=specific"
		if op.Seat == -1 {
			cause = "join=any"
		}
		if op.Seat < -1 || op.Seat >= s.max {
			s.rep.Inc("class_out_of_range_id")
			if err == nil {
				s.fail("C18/out-of-range-accepted", cause, fmt.Sprintf("%s on a table of %d returned seat %d", op, s.max, sid))
			}
			return
		}
		if err == nil {
			if sid < 0 || sid >= s.max {
				s.fail("C18/join-bad-seat", cause, fmt.Sprintf("%s returned seat %d", op, sid))
				return
			}
			if pre[sid].occ {
				s.fail("C18/double-booking", cause, fmt.Sprintf("%s put a player on occupied seat %d", op, sid))
				return
			}
			if op.Seat == -1 && pre[sid].res {
				s.fail("C18/join-any-reserved", cause, fmt.Sprintf("%s put a player on reserved seat %d", op, sid))
				return
			}
			if op.Seat >= 0 && sid != op.Seat {
				s.fail("C18/join-other-seat", cause, fmt.Sprintf("%s returned seat %d", op, sid))
				return
			}
			if !post[sid].occ {
				s.fail("C18/join-not-seated", cause, fmt.Sprintf("%s succeeded but seat %d is empty", op, sid))
				return
			}
			for i := range pre {
				if i != sid && pre[i].occ != post[i].occ {
					s.fail("C18/occupancy-changed", cause, fmt.Sprintf("%s changed seat %d as well", op, i))
					return
				}
			}
			// merely joined: held out of play until they sit in
			if s.m.Dealer() != nil { // the accessor needs a dealer (it dereferences it)
				for _, ps := range s.m.GetPlayableSeats() {
					if ps.ID == sid {
						s.fail("C18/joined-is-playable", cause, fmt.Sprintf("%s: the player is playable before sitting in", op))
						return
					}
				}
			}
			if !post[sid].res {
				s.fail("C18/joined-not-held-out", cause, fmt.Sprintf("%s: seat %d is not held out of play", op, sid))
				return
			}
			full := true
			for _, v := range post {
				if !v.occ {
					full = false
				}
			}
			if full {
				s.rep.Inc("class_table_full")
			}
		} else {
			if op.Seat >= 0 {
				s.rep.Inc("class_join_occupied_refused")
				if !pre[op.Seat].occ {
					s.fail("C18/join-refused-empty", cause, fmt.Sprintf("%s refused (%v) although the seat is empty", op, err))
					return
				}
			} else {
				s.rep.Inc("class_join_any_refused")
				for i, v := range pre {
					if !v.occ && !v.res {
						s.fail("C18/join-any-refused", cause, fmt.Sprintf("%s refused (%v) although seat %d is empty and not reserved", op, err, i))
						return
					}
				}
			}
			for i := range pre {
				if pre[i] != post[i] {
					s.fail("C18/refused-but-changed", cause, fmt.Sprintf("%s was refused but seat %d changed", op, i))
					return
				}
			}
		}
	}
	// C08 deal-in watch: armed when a player takes a seat strictly between dealer and big blind
	// that was empty when the current positions were assigned
	// (a seat is "closed" when the last assignment left it inactive: empty seats between dealer and
	// big blind, and seats whose waiting occupant has not been passed by the button yet), and nobody
	// has touched any other seat since then
	if s.props["C08"] && err == nil && op.Seat >= 0 && s.closedAfterAssign != nil && s.onlyTouched(sid) {
		d, b := s.m.Dealer(), s.m.BigBlind()
		if d != nil && b != nil && strictlyBetween(d.ID, sid, b.ID, s.max) && (s.closedAfterAssign[sid] || s.emptyAtAssign[sid]) && !pre[sid].occ {
			s.watchSeat = sid
			s.watchPassed = false
			s.justArmed = true
			s.rep.Inc("deal_in_watches_armed")
			return
		}
	}
}

func (s *seatRun) onLeave(op SeatOp, pre, post []seatView, err error) {
	if err == nil {
		s.joined--
	}
	if !s.props["C18"] {
		return
	}
	s.rep.Inc("oracle_evaluations")
	if op.Seat < 0 || op.Seat >= s.max {
		s.rep.Inc("class_out_of_range_id")
		if err == nil {
			s.fail("C18/out-of-range-accepted", "op=L", fmt.Sprintf("%s on a table of %d returned no error", op, s.max))
		}
		return
	}
	if err == nil {
		if !pre[op.Seat].occ {
			s.fail("C18/leave-empty-accepted", "op=L", fmt.Sprintf("%s succeeded on an empty seat", op))
			return
		}
		if post[op.Seat].occ {
			s.fail("C18/leave-not-freed", "op=L", fmt.Sprintf("%s succeeded but the seat is still occupied", op))
			return
		}
		if post[op.Seat].res {
			s.fail("C18/leave-not-freed", "op=L", fmt.Sprintf("%s succeeded but the seat is still reserved", op))
			return
		}
		// the seat as the position accessors show it (dealer / small blind / big blind keep pointing at it)
		if !s.resetSeen {
			for name, a := range map[string]*sm.Seat{"Dealer()": s.m.Dealer(), "SmallBlind()": s.m.SmallBlind(), "BigBlind()": s.m.BigBlind()} {
				if a != nil && a.ID == op.Seat && a.Player != nil {
					s.fail("C18/leave-not-freed", "op=L,via=position-accessor", fmt.Sprintf("%s succeeded, the seat table shows seat %d empty, but %s still shows a player sitting there", op, op.Seat, name))
					return
				}
			}
		}
	} else if pre[op.Seat].occ {
		s.fail("C18/leave-refused", "op=L", fmt.Sprintf("%s refused (%v) although the seat is occupied", op, err))
		return
	}
	for i := range pre {
		if i != op.Seat && pre[i].occ != post[i].occ {
			s.fail("C18/occupancy-changed", "op=L", fmt.Sprintf("%s changed seat %d as well", op, i))
			return
		}
	}
}

func (s *seatRun) onNext(pre, post []seatView, prevD int, err error) {
	m := s.m
	P := playableOf(pre)
	Q := 0
	for _, v := range pre {
		if v.occ && !v.res {
			Q++
		}
	}
	if s.props["C17"] {
		s.rep.Inc("oracle_evaluations")
		s.rep.Inc("next_calls")
		switch {
		case len(P) >= 2:
			s.rep.Inc("class_two_or_more_playable_before")
		case Q < 2:
			s.rep.Inc("class_insufficient_even_with_waiting")
		default:
			s.rep.Inc("class_waiting_players_let_in")
		}
		if err != nil {
			if len(P) >= 2 {
				s.fail("C17/refused-with-two-playable", "err="+err.Error(), fmt.Sprintf("Next() refused (%v) although seats %v could play", err, P))
				return
			}
			if err != sm.ErrInsufficientNumberOfPlayers {
				s.fail("C17/wrong-error", "err="+err.Error(), fmt.Sprintf("Next() failed with %v, expected the insufficient-players error", err))
				return
			}
			// refused "if, even after waiting players have been let in, fewer than two can play": a refusal
			// that leaves two or more playable seats behind has let the waiting players in and stalled anyway
			if Q >= 2 {
				s.fail("C17/refused-with-two-playable", "waiting-not-let-in", fmt.Sprintf("Next() refused (%v) although %d seated players are not sitting out: let in, two or more could play (playable before the call: %v)", err, Q, P))
				return
			}
			if pp := playableOf(post); len(pp) >= 2 {
				s.fail("C17/refused-with-two-playable", "after-let-in", fmt.Sprintf("Next() refused (%v) but left seats %v able to play (before the call: %v)", err, pp, P))
				return
			}
			// a refused move leaves dealer where it was? not claimed
		} else {
			if Q < 2 {
				s.fail("C17/accepted-insufficient", "players=<2", fmt.Sprintf("Next() succeeded with %d seated non-reserved players", Q))
				return
			}
			if len(P) >= 2 && prevD >= 0 {
				e := firstAfter(P, prevD, s.max)
				d := dealerID(m)
				s.rep.Inc("button_moves_checked")
				if d != e {
					kind := "skipped"
					if d == prevD {
						kind = "stalled"
					}
					s.fail("C17/button", "kind="+kind, fmt.Sprintf("button was on %d, playable seats %v, moved to %d, expected %d", prevD, P, d, e))
					return
				}
				s.rep.Seen("nontrivial17", fmt.Sprint(s.max, prevD, P))
			}
		}
	}
	if err != nil {
		// a refused move may have moved the button or opened seats on its way: no positions were assigned,
		// so nothing is known about closed seats until the next successful move
		s.emptyAtAssign, s.closedAfterAssign = nil, nil
		s.watchSeat = -1
		s.waiting = nil
		return
	}
	if s.props["C18"] {
		// "held out of play until they sit in": a position never lands on a seat whose player has only joined
		for name, a := range map[string]*sm.Seat{"dealer": m.Dealer(), "small blind": m.SmallBlind(), "big blind": m.BigBlind()} {
			if a != nil && a.ID >= 0 && a.ID < len(post) && post[a.ID].occ && post[a.ID].res {
				s.fail("C18/waiting-player-in-play", "position="+strings.ReplaceAll(name, " ", "-"), fmt.Sprintf("after Next() the %s is seat %d, whose player has joined but never sat in (seats: %v)", name, a.ID, post))
				return
			}
		}
		s.rep.Inc("positions_checked_for_reserved_seats")
	}
	if s.props["C08"] || s.props["C17"] {
		s.rep.Inc("oracle_evaluations")
		s.rep.Inc("successful_next")
		d, sb, bb := m.Dealer(), m.SmallBlind(), m.BigBlind()
		rulePrefix := "C08"
		if !s.props["C08"] {
			rulePrefix = "C17" // C17: a nil return must satisfy C08 when fewer than two were playable before
			if len(P) >= 2 {
				return
			}
		}
		if d == nil || sb == nil || bb == nil {
			s.fail(rulePrefix+"/nil-position", "after=N", "Next() succeeded but a position is unset")
			return
		}
		PP := playableOf(post)
		cause := fmt.Sprintf("playable=%s", map[bool]string{true: "2", false: "3+"}[len(PP) == 2])
		if !inInts(PP, d.ID) || !inInts(PP, sb.ID) || !inInts(PP, bb.ID) {
			s.fail(rulePrefix+"/position-not-playable", cause, fmt.Sprintf("dealer %d sb %d bb %d, playable seats %v", d.ID, sb.ID, bb.ID, PP))
			return
		}
		switch {
		case len(PP) < 2:
			s.fail(rulePrefix+"/fewer-than-two-playable", "playable=<2", fmt.Sprintf("Next() succeeded with playable seats %v", PP))
			return
		case len(PP) == 2:
			s.rep.Inc("class_heads_up_positions")
			if sb.ID != d.ID || bb.ID == d.ID {
				s.fail(rulePrefix+"/heads-up", cause, fmt.Sprintf("two playable seats %v: dealer %d sb %d bb %d", PP, d.ID, sb.ID, bb.ID))
				return
			}
		default:
			s.rep.Inc("class_three_plus_positions")
			es := firstAfter(PP, d.ID, s.max)
			eb := firstAfter(PP, es, s.max)
			if sb.ID != es || bb.ID != eb {
				s.fail(rulePrefix+"/blinds", cause, fmt.Sprintf("playable seats %v dealer %d: sb %d bb %d, expected sb %d bb %d", PP, d.ID, sb.ID, bb.ID, es, eb))
				return
			}
		}
		s.rep.Seen("nontrivial08", fmt.Sprint(s.max, d.ID, PP))
		if !s.props["C08"] {
			return
		}
		// the deal-in clause for a joiner who has not come yet: right after the positions were assigned, an
		// empty seat strictly between dealer and big blind is closed - a player taking it now would
		// otherwise be dealt in on the next hand whether or not the button has passed him
		// (claimed where the button would stop short of the seat: three or more players, seat behind the small blind)
		for x, v := range post {
			if !v.occ && v.act && sb.ID != d.ID && strictlyBetween(sb.ID, x, bb.ID, s.max) {
				s.fail("C08/open-seat-between-dealer-and-bb", cause, fmt.Sprintf("after Next(): dealer %d sb %d bb %d, empty seat %d between dealer and big blind is open: whoever takes it is dealt in before the button has passed it (seats: %v)", d.ID, sb.ID, bb.ID, x, post))
				return
			}
		}
		s.rep.Inc("empty_seats_between_checked")
		// waiting watch: a player who sat waiting on a closed seat between dealer and big blind when the
		// previous hand was set up, with nobody else moving since, is not dealt in before the button has
		// moved past his seat (the deal-in clause, hand by hand: it does not matter what happened before
		// the previous hand was set up)
		for x := range s.waiting {
			if !post[x].occ || post[x].res || prevD < 0 || d.ID == x || strictlyBetween(prevD, x, d.ID, s.max) {
				continue
			}
			s.rep.Inc("waiting_players_not_passed_checked")
			if inInts(PP, x) {
				s.fail("C08/dealt-in-early", "watch=waiting-player", fmt.Sprintf("seat %d was waiting on a closed seat between dealer and big blind when the previous hand was set up; nobody else has moved, the button went from %d to %d without passing the seat, and it is dealt in (dealer %d sb %d bb %d, seats %v)", x, prevD, d.ID, d.ID, sb.ID, bb.ID, post))
				return
			}
		}
		s.waiting = map[int]bool{}
		for x, v := range post {
			if v.occ && !v.act && strictlyBetween(d.ID, x, bb.ID, s.max) {
				s.waiting[x] = true
			}
		}
		// deal-in watch
		if s.watchSeat >= 0 && (!post[s.watchSeat].occ || post[s.watchSeat].res) {
			s.watchSeat = -1 // the joiner has not sat in: nothing is claimed
		}
		if s.watchSeat >= 0 {
			x := s.watchSeat
			nd := d.ID
			if prevD >= 0 && (strictlyBetween(prevD, x, nd, s.max)) {
				s.watchPassed = true
			}
			if nd == x {
				// the button landed on the seat itself: outside the claim (seat vacated / re-activated); stop watching
				s.watchSeat = -1
			} else {
				in := inInts(PP, x)
				if in && !s.watchPassed {
					s.fail("C08/dealt-in-early", "watch=join-between", fmt.Sprintf("seat %d joined between dealer and big blind and is dealt in although the button (now %d, was %d) has not passed it", x, nd, prevD))
					return
				}
				if !in && s.watchPassed {
					s.fail("C08/dealt-in-late", "watch=join-between", fmt.Sprintf("seat %d joined between dealer and big blind, the button (now %d, was %d) has passed it, but it is not dealt in", x, nd, prevD))
					return
				}
				if in {
					s.rep.Inc("deal_in_watches_resolved")
					s.watchSeat = -1
				}
			}
		}
		s.lostDealer = -1
		s.touched = s.touched[:0]
		s.closedAfterAssign = make([]bool, s.max)
		for i, v := range post {
			s.closedAfterAssign[i] = !v.act
		}
		s.emptyAtAssign = make([]bool, s.max)
		for i, v := range pre {
			s.emptyAtAssign[i] = !v.occ
		}
		if s.engine {
			s.engineStep(PP, d.ID, sb.ID, bb.ID)
		}
	}
}

// engineStep re-enacts table/internal.go setupPosition+startGame: playable seats in order starting at
// the dealer, positions copied, and requires the engine to start, post blinds on the expected seats
// and pick the expected first actor
func (s *seatRun) engineStep(PP []int, d, sb, bb int) {
	seats := s.m.GetPlayableSeats()
	opts := pokerface.NewStardardGameOptions()
	opts.Deck = pokerface.NewStandardDeckCards()
	opts.Blind.SB, opts.Blind.BB = 5, 10
	ids := []int{}
	for _, st := range seats {
		pos := []string{}
		if st.ID == d {
			pos = append(pos, "dealer")
		}
		if st.ID == sb {
			pos = append(pos, "sb")
		} else if st.ID == bb {
			pos = append(pos, "bb")
		}
		ids = append(ids, st.ID)
		opts.Players = append(opts.Players, &pokerface.PlayerSetting{Bankroll: 1000, Positions: pos})
	}
	s.rep.Inc("engine_handoffs")
	g := pokerface.NewPokerFace().NewGame(opts)
	fail := func(msg string) {
		s.fail("C08/engine-handoff", "consumer=startGame", fmt.Sprintf("playable seats %v dealer %d sb %d bb %d: %s", ids, d, sb, bb, msg))
	}
	if err := g.Start(); err != nil {
		fail("engine refused to start: " + err.Error())
		return
	}
	for _, step := range []func() error{g.ReadyForAll, g.PayBlinds, g.ReadyForAll} {
		if err := step(); err != nil {
			fail("engine step failed: " + err.Error())
			return
		}
	}
	gs := g.GetState()
	for k, p := range gs.Players {
		want := int64(0)
		if ids[k] == bb {
			want = 10
		} else if ids[k] == sb {
			want = 5
		}
		if p.Wager != want {
			fail(fmt.Sprintf("seat %d posted %d, expected %d", ids[k], p.Wager, want))
			return
		}
	}
	if gs.Status.CurrentEvent != "RoundStarted" {
		fail("engine is at " + gs.Status.CurrentEvent)
		return
	}
	first := ids[gs.Status.CurrentPlayer]
	want := firstAfter(PP, bb, s.max)
	if first != want {
		fail(fmt.Sprintf("first to act is seat %d, expected %d", first, want))
	}
}

func genSeatHistory(r *rand.Rand, max int) []SeatOp {
	n := 5 + r.Intn(56)
	ops := make([]SeatOp, 0, n)
	hostileIDs := r.Intn(4) == 0
	for i := 0; i < n; i++ {
		switch k := r.Intn(20); {
		case k < 6:
			seat := r.Intn(max+1) - 1 // -1..max-1
			if hostileIDs && r.Intn(4) == 0 {
				seat = r.Intn(max+7) - 3
			}
			ops = append(ops, SeatOp{Kind: 'J', Seat: seat})
			if r.Intn(4) != 0 && seat >= 0 && seat < max {
				ops = append(ops, SeatOp{Kind: 'S', Seat: seat})
			}
		case k < 10:
			seat := r.Intn(max)
			if hostileIDs && r.Intn(4) == 0 {
				seat = r.Intn(max+7) - 3
			}
			ops = append(ops, SeatOp{Kind: 'L', Seat: seat})
		case k < 12:
			seat := r.Intn(max)
			if hostileIDs && r.Intn(4) == 0 {
				seat = r.Intn(max+7) - 3
			}
			if r.Intn(2) == 0 {
				ops = append(ops, SeatOp{Kind: 'R', Seat: seat})
			} else {
				ops = append(ops, SeatOp{Kind: 'S', Seat: seat})
			}
		default:
			ops = append(ops, SeatOp{Kind: 'N', Seat: 0})
		}
		if r.Intn(60) == 0 {
			ops = append(ops, SeatOp{Kind: []byte{'X', 'X', 'Z', 'Y', 'Y'}[r.Intn(5)], Seat: r.Intn(3) / 2})
		}
	}
	return ops
}

func parseSeatHistory(text string) []SeatOp {
	var ops []SeatOp
	for _, f := range strings.Fields(text) {
		op := SeatOp{Kind: f[0]}
		if i := strings.IndexByte(f, '>'); i > 0 {
			if f[i+1:] == "x" {
				op.Want = -1
			} else {
				var w int
				fmt.Sscan(f[i+1:], &w)
				op.Want = w + 1
			}
			f = f[:i]
		}
		if len(f) > 1 {
			fmt.Sscan(f[1:], &op.Seat)
		}
		ops = append(ops, op)
	}
	return ops
}

func newSeatRun(prop string, props []string, max int, rep *Report, seed int64, idx int, r *rand.Rand) *seatRun {
	s := &seatRun{prop: prop, props: map[string]bool{}, max: max, m: sm.NewSeatManager(max), rep: rep, seed: seed, idx: idx, watchSeat: -1, lostDealer: -1, r: r}
	for _, p := range props {
		s.props[p] = true
	}
	return s
}

func runSeatHistory(s *seatRun, ops []SeatOp) {
	s.rep.Inc("histories")
	for _, op := range ops {
		if s.failed {
			return
		}
		s.apply(op)
	}
}

// targeted scenario: random occupancy, k hands, somebody takes an empty seat between dealer and big blind, hands go on
func runJoinBetween(s *seatRun, r *rand.Rand) {
	max := s.max
	s.rep.Inc("histories")
	for i := 0; i < max; i++ {
		if r.Intn(3) != 0 {
			s.apply(SeatOp{Kind: 'J', Seat: i})
			s.apply(SeatOp{Kind: 'S', Seat: i})
		}
	}
	k := 1 + r.Intn(4)
	for i := 0; i < k && !s.failed; i++ {
		s.apply(SeatOp{Kind: 'N', Seat: 0})
		if dealerID(s.m) < 0 {
			return
		}
		if r.Intn(3) == 0 {
			s.apply(SeatOp{Kind: 'L', Seat: r.Intn(max)})
		}
	}
	if s.failed {
		return
	}
	s.apply(SeatOp{Kind: 'N', Seat: 0})
	if s.failed || s.m.Dealer() == nil || s.m.BigBlind() == nil || s.m.GetPlayableSeatCount() < 2 {
		return
	}
	d, b := s.m.Dealer().ID, s.m.BigBlind().ID
	cands := []int{}
	for _, st := range s.m.GetSeats() {
		if st.Player == nil && strictlyBetween(d, st.ID, b, max) {
			cands = append(cands, st.ID)
		}
	}
	if len(cands) == 0 {
		return
	}
	x := cands[r.Intn(len(cands))]
	switch r.Intn(6) {
	case 0: // somebody tries the seat first and leaves again
		s.apply(SeatOp{Kind: 'J', Seat: x})
		if r.Intn(2) == 0 {
			s.apply(SeatOp{Kind: 'S', Seat: x})
		}
		s.apply(SeatOp{Kind: 'L', Seat: x})
	case 1: // the seat is held for somebody first
		s.apply(SeatOp{Kind: 'R', Seat: x})
	}
	s.apply(SeatOp{Kind: 'J', Seat: x})
	s.apply(SeatOp{Kind: 'S', Seat: x})
	for h := 0; h < 2*max && !s.failed && s.watchSeat >= 0; h++ {
		s.apply(SeatOp{Kind: 'N', Seat: 0})
		if s.m.GetPlayableSeatCount() < 2 {
			return
		}
	}
}

// targeted scenario: a table that collapses to (about) two playing seats between two hands while other
// players are waiting - on closed seats, on open seats, sat in or not. The second Next() has to choose
// heads-up or three-handed positions after letting the waiting players in.
func runCollapse(s *seatRun, r *rand.Rand) {
	max := s.max
	s.rep.Inc("histories")
	s.rep.Inc("collapse_scenarios")
	perm := r.Perm(max)
	k := 3 + r.Intn(max-2)
	if k > max {
		k = max
	}
	for i, seat := range perm {
		switch {
		case i < k:
			s.apply(SeatOp{Kind: 'J', Seat: seat})
			s.apply(SeatOp{Kind: 'S', Seat: seat})
		case r.Intn(3) == 0:
			s.apply(SeatOp{Kind: 'J', Seat: seat}) // seated but sitting out
		}
	}
	for round := 0; round < 1+r.Intn(3) && !s.failed; round++ {
		s.apply(SeatOp{Kind: 'N', Seat: 0})
		if s.failed || dealerID(s.m) < 0 {
			return
		}
		seats := viewSeats(s.m)
		// newcomers and sit-ins while the hand is on
		for _, seat := range r.Perm(max) {
			v := seats[seat]
			switch {
			case !v.occ && r.Intn(2) == 0:
				s.apply(SeatOp{Kind: 'J', Seat: seat})
				if r.Intn(3) != 0 {
					s.apply(SeatOp{Kind: 'S', Seat: seat})
				}
			case v.occ && v.res && r.Intn(2) == 0:
				s.apply(SeatOp{Kind: 'S', Seat: seat})
			}
		}
		// the players of this hand leave until about two are left
		playing := playableOf(seats)
		r.Shuffle(len(playing), func(i, j int) { playing[i], playing[j] = playing[j], playing[i] })
		keep := 1 + r.Intn(2)
		if r.Intn(4) == 0 {
			keep = 0
		}
		for i := keep; i < len(playing); i++ {
			s.apply(SeatOp{Kind: 'L', Seat: playing[i]})
		}
	}
	if !s.failed {
		s.apply(SeatOp{Kind: 'N', Seat: 0})
	}
	if !s.failed && r.Intn(2) == 0 {
		// newcomers who had taken a seat without sitting in do so now, after the collapse hand was set up;
		// from here on everybody stays put
		late := 0
		for seat, v := range viewSeats(s.m) {
			if v.occ && v.res && r.Intn(3) != 0 {
				s.apply(SeatOp{Kind: 'S', Seat: seat})
				late++
			}
		}
		if late > 0 {
			s.rep.Inc("class_sit_in_after_the_collapse_hand")
		}
	}
	for k := r.Intn(3); k > 0 && !s.failed && dealerID(s.m) >= 0; k-- {
		s.apply(SeatOp{Kind: 'N', Seat: 0})
	}
}
