package main

import (
	"fmt"
	"math/rand"
	"sort"
	"strings"

	"github.com/weedbox/pokerface"
	"github.com/weedbox/pokerface/combination"
	"github.com/weedbox/pokerface/pot"
	"github.com/weedbox/pokerface/settlement"
)

// =============================================================================================
// C16 — published pots vs reference nested pots

type PotVec struct {
	C     []int64 `json:"contributions"`
	F     []bool  `json:"folded"`
	S     []int   `json:"strengths,omitempty"`
	Order []int   `json:"insertion_order,omitempty"`
	// Reports: 0 every seat is reported once; 1 every seat is reported again with the same figures
	// (a list kept for the whole hand); 2 the round is followed live: every seat is first reported with
	// half its final wager, then with the final one
	Reports int `json:"reports,omitempty"`
	// PerPot: the pots are settled one by one through Result.CalculatePot instead of Result.Calculate
	PerPot bool `json:"per_pot,omitempty"`
}

// checkPots compares published pots with the reference partition; returns rule, message ("" = fine)
func checkPots(contrib []int64, fold []bool, pots []*pot.Pot) (string, string) {
	ref := refPots(contrib, fold)
	var all, tot int64
	for _, c := range contrib {
		all += c
	}
	prevLevel := int64(0)
	prevLive := -1
	for k, p := range pots {
		if p == nil {
			return "C16/nil-pot", fmt.Sprintf("pot %d is nil", k)
		}
		tot += p.Total
		if p.Level < prevLevel || (p.Level == prevLevel && k > 0) {
			return "C16/level-order", fmt.Sprintf("pot %d level %d after level %d", k, p.Level, prevLevel)
		}
		var exp int64
		for _, c := range contrib {
			if x := minI64(c, p.Level) - prevLevel; x > 0 {
				exp += x
			}
		}
		if p.Total != exp {
			return "C16/total", fmt.Sprintf("pot %d (levels %d..%d) total %d, players put %d into that band", k, prevLevel, p.Level, p.Total, exp)
		}
		if p.Wager != p.Level-prevLevel {
			return "C16/per-pot-amount", fmt.Sprintf("pot %d wager %d, band is %d", k, p.Wager, p.Level-prevLevel)
		}
		live := 0
		for i := range contrib {
			w, in := p.Contributors[i]
			if fold[i] {
				continue
			}
			if contrib[i] >= p.Level {
				live++
				if !in {
					return "C16/eligible-missing", fmt.Sprintf("pot %d (level %d): live seat %d put in %d but is not listed", k, p.Level, i, contrib[i])
				}
				if w != p.Wager {
					return "C16/eligible-amount", fmt.Sprintf("pot %d (level %d): live seat %d listed with %d, per-pot amount is %d", k, p.Level, i, w, p.Wager)
				}
			} else if in {
				return "C16/eligible-extra", fmt.Sprintf("pot %d (level %d): live seat %d put in only %d but is listed with %d", k, p.Level, i, contrib[i], w)
			}
		}
		for idx := range p.Contributors {
			if idx < 0 || idx >= len(contrib) {
				return "C16/unknown-seat", fmt.Sprintf("pot %d lists seat %d", k, idx)
			}
		}
		if prevLive >= 0 && live >= prevLive {
			return "C16/not-shrinking", fmt.Sprintf("pot %d has %d eligible players, the pot before has %d", k, live, prevLive)
		}
		prevLive = live
		prevLevel = p.Level
	}
	if tot != all {
		return "C16/sum", fmt.Sprintf("pots sum to %d, players put in %d", tot, all)
	}
	// cross-check against the independently built partition (an empty leading pot at level 0 - seats
	// that put in nothing - carries no chips and is not part of the reference partition)
	if len(pots) > 0 && pots[0].Level == 0 {
		pots = pots[1:]
	}
	if len(ref) != len(pots) {
		return "C16/pot-count", fmt.Sprintf("%d pots published, reference partition has %d", len(pots), len(ref))
	}
	for k := range ref {
		if ref[k].Level != pots[k].Level || ref[k].Total != pots[k].Total {
			return "C16/partition", fmt.Sprintf("pot %d level/total %d/%d, reference %d/%d", k, pots[k].Level, pots[k].Total, ref[k].Level, ref[k].Total)
		}
	}
	return "", ""
}

func potShape(contrib []int64, fold []bool) string {
	// abstraction used for distinct counting: sorted (contribution rank, folded) pattern
	type cf struct {
		c int64
		f bool
	}
	xs := make([]cf, len(contrib))
	for i := range contrib {
		xs[i] = cf{contrib[i], fold[i]}
	}
	sort.Slice(xs, func(i, j int) bool {
		if xs[i].c != xs[j].c {
			return xs[i].c < xs[j].c
		}
		return !xs[i].f && xs[j].f
	})
	var sb strings.Builder
	rank, prev := 0, int64(-1)
	for _, x := range xs {
		if x.c != prev {
			rank++
			prev = x.c
		}
		z := 0
		if x.c == 0 {
			z = 1
		}
		fmt.Fprintf(&sb, "%d%v%d,", rank, x.f, z)
	}
	return sb.String()
}

type C16Mon struct{ BaseMon }

func (m *C16Mon) check(h *Hand, s *pokerface.GameState, at string) {
	n := len(s.Players)
	contrib, fold := make([]int64, n), make([]bool, n)
	for _, p := range s.Players {
		contrib[p.Idx] = p.Pot + p.Wager
		fold[p.Idx] = p.Fold
	}
	h.Rep.Inc("oracle_evaluations")
	h.Rep.Inc("published_" + at)
	if rule, msg := checkPots(contrib, fold, s.Status.Pots); rule != "" {
		h.Fail(rule, "source=engine", fmt.Sprintf("at %s: %s (contributions %v folded %v)", at, msg, contrib, fold))
		return
	}
	if len(s.Status.Pots) >= 2 {
		h.Rep.Inc("multi_pot_publications")
		h.Rep.Seen("nontrivial", potShape(contrib, fold)+fmt.Sprint(contrib))
	}
}

func (m *C16Mon) Wait(h *Hand, s *pokerface.GameState) {
	if ev := s.Status.CurrentEvent; ev == "RoundClosed" || ev == "GameClosed" {
		m.check(h, s, ev)
	}
}

func (m *C16Mon) After(h *Hand, pre *pokerface.GameState, op Op, err error, post *pokerface.GameState) {
	if op.Name == "ante" && err == nil {
		// published from the antes, before they are swept: contributions are the antes
		n := len(post.Players)
		contrib, fold := make([]int64, n), make([]bool, n)
		for _, p := range post.Players {
			contrib[p.Idx] = p.Pot + p.Wager
			fold[p.Idx] = p.Fold
		}
		h.Rep.Inc("oracle_evaluations")
		h.Rep.Inc("published_AntePaid")
		if rule, msg := checkPots(contrib, fold, post.Status.Pots); rule != "" {
			h.Fail(rule, "source=engine", "after antes: "+msg)
		}
	}
}

func genPotVec(r *rand.Rand) *PotVec {
	n := 2 + r.Intn(9)
	v := &PotVec{}
	mode := r.Intn(4)
	if r.Intn(12) == 0 {
		mode = 4
	}
	for i := 0; i < n; i++ {
		var c int64
		switch mode {
		case 4: // very large amounts
			c = []int64{1 << 31, 1 << 53, 1 << 55}[r.Intn(3)] + int64(r.Intn(7)) - 3
			if r.Intn(4) == 0 {
				c = int64(r.Intn(5))
			}
		case 0:
			c = int64(r.Intn(4))
		case 1:
			c = int64(r.Intn(8))
		case 2:
			c = int64(r.Intn(300))
		default:
			if r.Intn(3) == 0 {
				c = int64(r.Intn(100000))
			} else {
				c = int64(r.Intn(6)) * 25
			}
		}
		v.C = append(v.C, c)
		v.F = append(v.F, r.Intn(3) == 0)
		v.S = append(v.S, 1+r.Intn(3))
	}
	v.Order = r.Perm(n)
	v.Reports = []int{0, 0, 1, 2}[r.Intn(4)]
	v.PerPot = r.Intn(3) == 0
	return v
}

func buildPots(v *PotVec) []*pot.Pot {
	ll := pot.NewLevelList()
	order := v.Order
	if order == nil {
		order = make([]int, len(v.C))
		for i := range order {
			order[i] = i
		}
	}
	if v.Reports == 2 {
		for _, i := range order {
			if v.C[i] >= 2 {
				ll.AddContributor(v.C[i]/2, i, false)
			}
		}
	}
	for _, i := range order {
		ll.AddContributor(v.C[i], i, v.F[i])
	}
	if v.Reports == 1 {
		for k := len(order) - 1; k >= 0; k-- {
			ll.AddContributor(v.C[order[k]], order[k], v.F[order[k]])
		}
	}
	return ll.GetPots()
}

func checkPotVecC16(prop string, v *PotVec, rep *Report, seed int64, idx int) {
	rep.Inc("vectors")
	rep.Inc("oracle_evaluations")
	var pots []*pot.Pot
	var pan interface{}
	func() {
		defer func() { pan = recover() }()
		pots = buildPots(v)
	}()
	if pan != nil {
		rep.Violate(&Violation{Prop: prop, Rule: "C16/panic", Cause: "source=direct", Msg: fmt.Sprint(pan), Kind: "potvec", Case: v, Seed: seed, CaseIndex: idx})
		return
	}
	if rule, msg := checkPots(v.C, v.F, pots); rule != "" {
		rep.Violate(&Violation{Prop: prop, Rule: rule, Cause: "source=direct", Msg: msg, Kind: "potvec", Case: v, Seed: seed, CaseIndex: idx})
		return
	}
	if len(pots) >= 2 {
		rep.Inc("multi_pot_vectors")
		rep.Seen("nontrivial", potShape(v.C, v.F))
	}
	hasZero, hasEq := false, false
	seen := map[int64]bool{}
	for _, c := range v.C {
		if c == 0 {
			hasZero = true
		}
		if seen[c] {
			hasEq = true
		}
		seen[c] = true
	}
	if hasZero {
		rep.Inc("class_zero_contribution")
	}
	if hasEq {
		rep.Inc("class_equal_contributions")
	}
}

// =============================================================================================
// C02 — settlement

// checkSettlement: res computed by /repo; strength(i) from the independent side
func checkSettlement(contrib []int64, fold []bool, strength func(int) RefKey, res *settlement.Result) (rule, msg string, nontrivial bool, orphan bool) {
	n := len(contrib)
	pots, gmin, gmax, orphan := refSettle(contrib, fold, strength)
	if res == nil {
		return "C02/no-result", "no result", false, orphan
	}
	var sum int64
	changed := make([]int64, n)
	seen := map[int]bool{}
	for _, pr := range res.Players {
		if pr.Idx < 0 || pr.Idx >= n || seen[pr.Idx] {
			return "C02/result-seats", fmt.Sprintf("bad or duplicate seat %d", pr.Idx), false, orphan
		}
		seen[pr.Idx] = true
		changed[pr.Idx] = pr.Changed
		sum += pr.Changed
	}
	if sum != 0 {
		return "C02/zero-sum", fmt.Sprintf("changes sum to %d", sum), false, orphan
	}
	for i := 0; i < n; i++ {
		// a folded player wins nothing; where a layer has no live payer (direct input only) the
		// property is silent about that layer, so there only "never nets a gain" is asserted
		if gross := changed[i] + contrib[i]; fold[i] && (changed[i] > 0 || (!orphan && gross != 0)) {
			return "C02/folded-wins", fmt.Sprintf("folded seat %d put in %d and collects %d", i, contrib[i], gross), false, orphan
		}
	}
	if orphan {
		return "", "", false, true
	}
	for i := 0; i < n; i++ {
		gross := changed[i] + contrib[i]
		if gross < gmin[i] || gross > gmax[i] {
			return "C02/share", fmt.Sprintf("seat %d collects %d, expected between %d and %d (contributions %v folded %v; reference pots %s)", i, gross, gmin[i], gmax[i], contrib, fold, descPots(pots)), false, false
		}
	}
	// a seat the result records as a winner of a pot (it netted a gain on one of its levels) must be
	// one of the best live hands of that pot
	if len(res.Pots) == len(pots) {
		for k, p := range pots {
			for _, w := range res.Pots[k].Winners {
				if !inInts(p.Winners, w.Idx) {
					return "C02/wrong-winner", fmt.Sprintf("pot %d records seat %d as a winner, best live hands there: %v", k, w.Idx, p.Winners), false, false
				}
			}
		}
	}
	tie := false
	for _, p := range pots {
		if len(p.Winners) >= 2 {
			tie = true
		}
	}
	return "", "", len(pots) >= 2 || tie, false
}

func descPots(pots []*RefPot) string {
	var sb strings.Builder
	for _, p := range pots {
		fmt.Fprintf(&sb, "[%d..%d total=%d live=%v winners=%v]", p.Prev, p.Level, p.Total, p.Live, p.Winners)
	}
	return sb.String()
}

func settleDirect(v *PotVec) (res *settlement.Result, pan interface{}) {
	defer func() { pan = recover() }()
	pots := buildPots(v)
	res = settlement.NewResult()
	for _, p := range pots {
		res.AddPot(p.Total, p.Levels)
	}
	for i := range v.C {
		res.AddPlayer(i, 1_000_000)
		if v.F[i] {
			res.UpdateScore(i, 0)
		} else {
			res.UpdateScore(i, v.S[i])
		}
	}
	if v.PerPot {
		for i, p := range res.Pots {
			res.CalculatePot(i, p)
		}
	} else {
		res.Calculate()
	}
	return
}

func checkPotVecC02(prop string, v *PotVec, rep *Report, seed int64, idx int) {
	rep.Inc("vectors")
	rep.Inc("oracle_evaluations")
	res, pan := settleDirect(v)
	if pan != nil {
		rep.Violate(&Violation{Prop: prop, Rule: "C02/panic", Cause: "source=direct", Msg: fmt.Sprint(pan), Kind: "potvec", Case: v, Seed: seed, CaseIndex: idx})
		return
	}
	strength := func(i int) RefKey { return RefKey{Idx: v.S[i]} }
	rule, msg, nontriv, orphan := checkSettlement(v.C, v.F, strength, res)
	if orphan {
		rep.Inc("vectors_with_layer_without_live_payer")
	}
	if rule != "" {
		rep.Violate(&Violation{Prop: prop, Rule: rule, Cause: "source=direct", Msg: msg, Kind: "potvec", Case: v, Seed: seed, CaseIndex: idx})
		return
	}
	if nontriv {
		rep.Inc("vectors_multi_pot_or_tie")
		key := potShape(v.C, v.F)
		for _, s := range v.S {
			key += fmt.Sprint(s)
		}
		rep.Seen("nontrivial", key)
	}
}

type C02Mon struct{ BaseMon }

func (m *C02Mon) End(h *Hand, s *pokerface.GameState) {
	n := len(s.Players)
	c := h.C
	contrib, fold := make([]int64, n), make([]bool, n)
	keys := make([]RefKey, n)
	alive := aliveCount(s)
	for _, p := range s.Players {
		contrib[p.Idx] = p.Pot + p.Wager
		fold[p.Idx] = p.Fold
		if p.Fold || alive < 2 {
			continue
		}
		best, _, tainted, ok := bestAdmissible(p.HoleCards, s.Status.Board, c.Req, c.Short, c.Short)
		if !ok || tainted {
			h.Rep.Inc("hands_skipped_unspecified_short_deck_straight")
			return
		}
		keys[p.Idx] = best
	}
	h.Rep.Inc("oracle_evaluations")
	h.Rep.Inc("settlements_checked")
	if alive >= 2 {
		h.Rep.Inc("showdowns_checked")
	}
	rule, msg, nontriv, orphan := checkSettlement(contrib, fold, func(i int) RefKey { return keys[i] }, s.Result)
	if orphan {
		h.Rep.Inc("hands_with_layer_without_live_payer")
	}
	if rule != "" {
		h.Fail(rule, "source=engine", msg+fmt.Sprintf(" board=%v", s.Status.Board))
		return
	}
	// uncalled excess goes back to its owner: the top layer with a single contributor
	if nontriv {
		h.Rep.Inc("hands_multi_pot_or_tie")
		h.Rep.Seen("nontrivial", traceKey(h))
	}
	tie := false
	if s.Result != nil {
		for _, p := range s.Result.Pots {
			if len(p.Winners) >= 2 {
				tie = true
			}
		}
	}
	if tie {
		h.Rep.Inc("hands_with_split_pot")
	}
}

// =============================================================================================
// C10 — reported hand is the true best hand

type C10Mon struct {
	BaseMon
	lastBoard int
}

func checkBestHand(hole, board []string, req int, short bool, pr combination.PowerRankings, rep *pokerface.CombinationInfo) (rule, msg string, cat int, nHole int) {
	best, bestCards, _, ok := bestAdmissible(hole, board, req, short, short)
	if rep == nil {
		return "C10/missing", "no hand reported", 0, 0
	}
	if len(rep.Cards) != 5 {
		return "C10/not-five-cards", fmt.Sprintf("reported cards %v", rep.Cards), 0, 0
	}
	seen := map[string]bool{}
	for _, x := range rep.Cards {
		if seen[x] {
			return "C10/card-twice", fmt.Sprintf("reported cards %v", rep.Cards), 0, 0
		}
		seen[x] = true
		inH, inB := hasStr(hole, x), hasStr(board, x)
		if !inH && !inB {
			return "C10/foreign-card", fmt.Sprintf("reported card %s is neither in hole %v nor on board %v", x, hole, board), 0, 0
		}
		if inH {
			nHole++
		}
	}
	if req > 0 && nHole != req {
		return "C10/hole-card-count", fmt.Sprintf("reported hand %v uses %d hole cards of %v, exactly %d required", rep.Cards, nHole, hole, req), 0, nHole
	}
	rk, rh := refKey(rep.Cards, short, short)
	cat = rh.Cat
	if !rh.Unspecified {
		if ok && rk.Less(best) {
			return "C10/not-best", fmt.Sprintf("reported %v (%s) but %v is better; hole %v board %v", rep.Cards, catName[rh.Cat], bestCards, hole, board), cat, nHole
		}
		if rep.Type != catName[rh.Cat] {
			return "C10/category", fmt.Sprintf("reported type %s for %v, which is %s", rep.Type, rep.Cards, catName[rh.Cat]), cat, nHole
		}
	}
	ps := combination.CalculatePower(pr, rep.Cards)
	if int(ps.Score) != rep.Power || combination.CombinationSymbol[ps.Combination] != rep.Type {
		return "C10/inconsistent", fmt.Sprintf("reported type %s power %d, but the reported cards %v evaluate to %s %d", rep.Type, rep.Power, rep.Cards, combination.CombinationSymbol[ps.Combination], ps.Score), cat, nHole
	}
	return "", "", cat, nHole
}

func (m *C10Mon) Wait(h *Hand, s *pokerface.GameState) {
	if len(s.Status.Board) < 3 || len(s.Status.Board) == m.lastBoard {
		return
	}
	m.lastBoard = len(s.Status.Board)
	c := h.C
	for _, p := range s.Players {
		h.Rep.Inc("oracle_evaluations")
		rule, msg, cat, nh := checkBestHand(p.HoleCards, s.Status.Board, c.Req, c.Short, c.Rankings(), p.Combination)
		if rule != "" {
			h.Fail(rule, fmt.Sprintf("required=%d,short=%v", c.Req, c.Short), fmt.Sprintf("seat %d on the %s: %s", p.Idx, s.Status.Round, msg))
			return
		}
		h.Rep.Inc("best_is_" + catName[cat])
		h.Rep.Inc(fmt.Sprintf("best_uses_%d_hole_cards", nh))
		h.Rep.Seen("nontrivial", strings.Join(sortedCopy(p.HoleCards), "")+"|"+strings.Join(sortedCopy(s.Status.Board), "")+fmt.Sprint(c.Req, c.Short))
	}
}
