package main

import (
	"context"
	"encoding/json"
	"fmt"
	"math/rand"
	"os"
	"os/exec"
	"path/filepath"
	"regexp"
	"runtime/debug"
	"strings"
	"sync/atomic"
	"time"

	"github.com/weedbox/pokerface"
	"github.com/weedbox/pokerface/combination"
	"github.com/weedbox/pokerface/table"
)

// stackBoard puts the given five cards where the board will be dealt from
func stackBoard(c *Cfg, board []string) {
	base := c.N * c.Hole
	pos := []int{base + 1, base + 2, base + 3, base + 5, base + 7}
	for k, card := range board {
		for j, x := range c.Deck {
			if x == card {
				c.Deck[j], c.Deck[pos[k]] = c.Deck[pos[k]], c.Deck[j]
				break
			}
		}
	}
}

const engineWorkloadNote = " Workload common to the engine checks: one hand in six is a hostile history (the state is reloaded into the same game object, operations that are not the expected one are tried and must be refused, rounds of read-only queries must leave the state byte-identical), one hand in eight runs on a game object that already played part of another hand (ApplyOptions or LoadState of the new hand), one configuration in fourteen uses amounts around 2^31, 2^53 and 2^55 incl. forced bets a float64 cannot hold, BurnCount 0-3 and the order of a seat's positions vary, hole-card rules 2/0, 4/2, 2/2, 3/0, 3/2, 5/2."

func sampleHand(h *Hand) interface{} {
	tr := h.Trace
	if len(tr) > 40 {
		tr = tr[:40]
	}
	ops := make([]string, 0, len(tr))
	for _, t := range tr {
		s := t.Op.Name
		if t.Op.Name == "bet" || t.Op.Name == "raise" {
			s += fmt.Sprintf("(%d)", t.Op.Amt)
		}
		if t.Err != "" {
			s += "!refused"
		}
		ops = append(ops, s)
	}
	return map[string]interface{}{
		"seats": h.C.N, "banks": h.C.Banks, "ante": h.C.Ante, "blinds": []int64{h.C.Dl, h.C.SB, h.C.BB}, "dead_sb": h.C.DeadSB,
		"limit": h.C.Limit, "short_deck": h.C.Short, "hole": h.C.Hole, "required_hole": h.C.Req, "dealer": h.C.DealerIdx,
		"deck_top": h.C.Deck[:12], "operations": strings.Join(ops, " "),
	}
}

type handCase struct {
	cfg    *Cfg
	script []Op
}

// runHands plays n generated hands (plus the scripted ones first) under monitors made by mk
func runHands(ctx *RunCtx, rep *Report, stream int64, n int, g GenOpts, scripted []handCase, tweak func(c *Cfg, r *rand.Rand), mk func() Monitor) {
	total := len(scripted) + n
	runCases(ctx, rep, stream, total, func(i int, r *rand.Rand, local *Report) {
		var c *Cfg
		var script []Op
		if i < len(scripted) {
			c, script = scripted[i].cfg, scripted[i].script
			local.Inc("scripted_hands")
		} else {
			c = genCfg(r, g)
			if tweak != nil {
				tweak(c, r)
			}
		}
		h := &Hand{Prop: ctx.Prop, C: c, R: r, Rep: local, Seed: ctx.Seed, CaseIdx: i, Scripted: script}
		if i >= len(scripted) && i%16 == 5 && c.Reuse == 0 {
			// (set up inside playHand, so that C06's guard covers the first twin's engine calls as well)
			h.pre = func() { twinHands(h, r) }
		}
		if ctx.Prop == "C06" {
			if !playHandGuarded(ctx, h, mk(), local) {
				return
			}
		} else {
			playHand(h, mk())
		}
		if i%997 == 3 || i < 2 {
			local.Sample(sampleHand(h), 3)
		}
	})
}

// twinHands: the hand under the monitors is the second of two hands with the same table, the same
// betting and another cut of the deck. The first one is played to its end on a game object O; the
// second one follows the same steps on its own object until its last "next" (the one that settles it),
// is moved onto O at that point (LoadState of its state) and finishes there. Every amount of the two
// hands agrees at every step, so whatever O remembers of the first hand "still fits" - and must not be used.
func twinHands(h *Hand, r *rand.Rand) {
	first := *h.C
	first.Noise, first.Prev, first.Reuse, first.ViaHandle = false, nil, 0, false
	cut := 1 + r.Intn(len(first.Deck)-1)
	first.Deck = append(append([]string{}, h.C.Deck[cut:]...), h.C.Deck[:cut]...)
	// the first hand is the second one with everybody moved k seats on (button, stacks, styles): the same
	// betting is legal in both, the amounts agree, the seats that paid them do not
	k := r.Intn(first.N)
	first.DealerIdx = (h.C.DealerIdx + k) % first.N
	first.Banks = make([]int64, first.N)
	first.Personas = make([]int, len(h.C.Personas))
	for i := 0; i < first.N; i++ {
		first.Banks[(i+k)%first.N] = h.C.Banks[i]
		if len(h.C.Personas) == first.N {
			first.Personas[(i+k)%first.N] = h.C.Personas[i]
		}
	}
	h1 := &Hand{Prop: h.Prop, C: &first, R: r, Rep: NewReport(), Seed: h.Seed, CaseIdx: h.CaseIdx, Scripted: h.Scripted}
	playHand(h1, BaseMon{})
	if h1.G == nil || h1.G.GetState().Status.CurrentEvent != "GameClosed" {
		return
	}
	last := -1
	for k, t := range h1.Trace {
		if t.Kind == "" && t.Op.Name == "next" {
			last = k
		}
	}
	if last < 0 {
		return
	}
	tr := make([]TraceStep, 0, len(h1.Trace)+1)
	for k, t := range h1.Trace {
		if t.Kind != "" {
			continue
		}
		if k == last {
			tr = append(tr, TraceStep{Op: Op{Name: "swap", Seat: -1 - k, Amt: -int64(cut)}, Kind: "swap"}) // negative amount: "the twin, deck cut here"; seat: -1-k, everybody k seats on
		}
		t.Err = ""
		tr = append(tr, t)
	}
	c2 := *h.C
	c2.Noise, c2.ViaHandle = false, false
	h.C = &c2
	h.ReplayTrace = tr
	h.spare = h1.G
	h.Rep.Inc("twin_hands")
}

// An engine call that never returns cannot be observed from inside the hand. For C06 ("that step always
// succeeds", "always finishes") every hand runs on its own goroutine; when one makes no progress for
// stallLimit, the steps recorded so far (the pending call is the last one) are written out and replayed
// by a child process of its own, with nothing else running in it. Only if the child does not come back
// either is this reported - the verdict rests on the isolated re-execution, not on the loaded parent's
// clock. The stuck goroutine cannot be stopped; it is left behind, and the run stops dealing new hands.
const stallLimit = 45 * time.Second

var stallStop int32

func playHandGuarded(ctx *RunCtx, h *Hand, mon Monitor, local *Report) bool {
	if atomic.LoadInt32(&stallStop) != 0 {
		return false
	}
	own := NewReport()
	h.Rep = own
	done := make(chan struct{})
	go func() {
		defer close(done)
		defer func() {
			if e := recover(); e != nil {
				own.Violate(&Violation{Prop: ctx.Prop, Rule: ctx.Prop + "/panic", Cause: "in=harness-or-monitor", Msg: fmt.Sprintf("panic: %v\n%s", e, firstLines(string(debug.Stack()), 24)), Kind: "panic", Seed: ctx.Seed, CaseIndex: h.CaseIdx})
			}
		}()
		playHand(h, mon)
	}()
	timer := time.NewTimer(stallLimit)
	defer timer.Stop()
	select {
	case <-done:
		local.Merge(own)
		h.Rep = local
		return true
	case <-timer.C:
	}
	// no progress: confirm in isolation
	tr := append([]TraceStep{}, h.Trace...)
	v := &Violation{Prop: ctx.Prop, Rule: "C06/operation-does-not-return", Cause: opCause(lastOf(tr)), Kind: "hand",
		Case: map[string]interface{}{"cfg": h.C, "trace": tr}, Seed: ctx.Seed, CaseIndex: h.CaseIdx}
	v.Signature = v.Rule + "|" + v.Cause
	v.Msg = fmt.Sprintf("the engine did not return from %+v (step %d of the hand) within %v, and not within %v either when the recorded steps were replayed alone in a fresh process", lastOf(tr), len(tr), stallLimit, stallLimit)
	os.MkdirAll(ctx.ReplayDir, 0o755)
	path := filepath.Join(ctx.ReplayDir, fmt.Sprintf(".stall-%s-%d-%d.json", ctx.Prop, ctx.Seed, h.CaseIdx))
	b, _ := json.Marshal(map[string]interface{}{"violation": v, "occurrences": 1, "tier": ctx.Tier})
	os.WriteFile(path, b, 0o644)
	defer os.Remove(path)
	cctx, cancel := context.WithTimeout(context.Background(), stallLimit)
	defer cancel()
	err := exec.CommandContext(cctx, os.Args[0], "replay", path).Run()
	if cctx.Err() == context.DeadlineExceeded {
		local.Inc("engine_calls_that_did_not_return")
		local.Violate(v)
		atomic.StoreInt32(&stallStop, 1)
		return false
	}
	_ = err
	local.Inc("stalls_not_confirmed_in_isolation")
	return false
}

func lastOf(tr []TraceStep) Op {
	if len(tr) == 0 {
		return Op{Name: "start", Seat: -1}
	}
	return tr[len(tr)-1].Op
}

// --- scripted scenarios -----------------------------------------------------------------------

func fullDeck(short bool, first ...string) []string {
	used := map[string]bool{}
	for _, c := range first {
		used[c] = true
	}
	d := append([]string{}, first...)
	for _, c := range baseDeck(short) {
		if !used[c] {
			d = append(d, c)
		}
	}
	return d
}

// five seats, ante 1, blinds 1/2: three players fold at distinct totals, two tie playing the board
func scenarioTieWithFoldedLevels() handCase {
	c := &Cfg{N: 5, Banks: []int64{100, 100, 100, 100, 100}, Ante: 1, SB: 1, BB: 2, Limit: "no", Hole: 2, DealerIdx: 0}
	c.Deck = fullDeck(false, "H2", "D3", "H3", "D4", "H4", "D2", "C2", "C4", "C3", "D7",
		"C7", "ST", "SJ", "SQ", "C8", "SK", "C9", "SA")
	c.Personas = []int{personaCaller, personaCaller, personaCaller, personaCaller, personaCaller}
	// UTG (3) folds, seat 4 raises to 5, dealer calls, sb folds, bb folds; then checks to showdown
	script := []Op{{Name: "fold", Seat: -1}, {Name: "raise", Seat: -1, Amt: 5}, {Name: "call", Seat: -1}, {Name: "fold", Seat: -1}, {Name: "fold", Seat: -1}}
	return handCase{c, script}
}

// heads-up, short big blind all-in, small blind completes
func scenarioHeadsUpShortBB() handCase {
	c := &Cfg{N: 2, Banks: []int64{500, 7}, Ante: 0, SB: 5, BB: 10, Limit: "no", Hole: 2, DealerIdx: 0}
	c.Deck = fullDeck(false)
	c.Personas = []int{personaCaller, personaCaller}
	return handCase{c, nil}
}

// three all-in levels and a folder: side pots + run-out
func scenarioSidePots() handCase {
	c := &Cfg{N: 4, Banks: []int64{30, 75, 200, 200}, Ante: 2, SB: 5, BB: 10, Limit: "no", Hole: 2, DealerIdx: 1}
	c.Deck = fullDeck(false)
	c.Personas = []int{personaManiac, personaManiac, personaCaller, personaFolder}
	return handCase{c, nil}
}

// everybody folds to the big blind
func scenarioFoldOut() handCase {
	c := &Cfg{N: 3, Banks: []int64{100, 100, 100}, SB: 5, BB: 10, Limit: "no", Hole: 2}
	c.Deck = fullDeck(false)
	script := []Op{{Name: "fold", Seat: -1}, {Name: "fold", Seat: -1}}
	return handCase{c, script}
}

// board plays for everyone (royal flush on board), all call to showdown, someone folds on the flop
func scenarioBoardPlays(short bool) handCase {
	c := &Cfg{N: 4, Banks: []int64{100, 100, 100, 100}, Ante: 1, SB: 1, BB: 2, Limit: "no", Hole: 2, Short: short}
	c.Deck = fullDeck(short)
	stackBoard(c, []string{"ST", "SJ", "SQ", "SK", "SA"})
	c.Personas = []int{personaCaller, personaCaller, personaCaller, personaCaller}
	return handCase{c, nil}
}

// a short stack opens the flop for more than it has (all-in for 100), the next player raises to
// twice that: a legal minimum raise over a bet of 100
func scenarioOverbetThenMinRaise() handCase {
	c := &Cfg{N: 3, Banks: []int64{1000, 1000, 110}, SB: 5, BB: 10, Limit: "no", Hole: 2, DealerIdx: 0}
	c.Deck = fullDeck(false)
	c.Personas = []int{personaCaller, personaCaller, personaCaller}
	script := []Op{{Name: "call", Seat: -1}, {Name: "call", Seat: -1}, {Name: "check", Seat: -1},
		{Name: "check", Seat: -1}, {Name: "bet", Seat: -1, Amt: 150}, {Name: "raise", Seat: -1, Amt: 200}}
	return handCase{c, script}
}

// boardPlaysTweak: in one hand in seven the board is a royal flush (every player who stays ties), the
// table has five or more seats and mostly callers with a few folders: many-way split pots built from
// several levels of dead money
func boardPlaysTweak(c *Cfg, r *rand.Rand) {
	if c.Req != 0 || r.Intn(7) != 0 {
		return
	}
	stackBoard(c, []string{"ST", "SJ", "SQ", "SK", "SA"})
	for i := range c.Personas {
		c.Personas[i] = []int{personaCaller, personaCaller, personaCaller, personaFolder, personaRandom}[r.Intn(5)]
	}
}

// limped pot; on the flop the small blind checks, the big blind shoves his last three chips, two folds,
// and the small blind check-raises by at least the size of that bet (far below the big blind)
func scenarioCheckRaiseOverDustAllin() handCase {
	c := &Cfg{N: 4, Banks: []int64{10000, 10000, 13, 10000}, SB: 5, BB: 10, Limit: "no", Hole: 2, DealerIdx: 0, Burn: 1}
	c.Deck = fullDeck(false)
	c.Personas = []int{personaCaller, personaCaller, personaCaller, personaCaller}
	script := []Op{{Name: "call", Seat: -1}, {Name: "call", Seat: -1}, {Name: "call", Seat: -1}, {Name: "check", Seat: -1},
		{Name: "check", Seat: -1}, {Name: "allin", Seat: -1}, {Name: "fold", Seat: -1}, {Name: "fold", Seat: -1}, {Name: "raise", Seat: -1, Amt: 8}}
	return handCase{c, script}
}

func commonScenarios() []handCase {
	return []handCase{scenarioTieWithFoldedLevels(), scenarioOverbetThenMinRaise(), scenarioCheckRaiseOverDustAllin(), scenarioHeadsUpShortBB(), scenarioSidePots(), scenarioFoldOut(), scenarioBoardPlays(false), scenarioBoardPlays(true)}
}

// --- per-property engine checks ---------------------------------------------------------------

func checkC01(ctx *RunCtx) int {
	rep := NewReport()
	runHands(ctx, rep, 1, ctx.N(6000, 400000), GenOpts{Hostile: true}, commonScenarios(), boardPlaysTweak, func() Monitor { return &C01Mon{} })
	return finish(ctx, rep, &CheckSpec{
		Prop: "C01", Level: "exploration", EvalCounter: "hands", NonTrivSet: "nontrivial",
		Rule:        "hands of the real engine from generated configurations (2-10 seats, boundary/tiny/medium/deep bankrolls, ante, blinds incl. dealer-blind-only / big-blind-only / dead small blind, no-/pot-limit, 52/36 cards, 2 or 4 hole cards), pinned random decks, mixed strategies with hostile bet/raise amounts; the chip ledger is asserted on the state after every operation, the pot sum at every publication point, the settlement ledger at close. Non-trivial = distinct (configuration, operation trace) with >= 2 published pots at close or a forced bet capped by the stack" + engineWorkloadNote + "",
		Required:    []string{"hands_with_side_pots", "hands_with_short_forced_bet", "publication_points", "settlements_checked"},
		Assumptions: []string{"pots are stale by design between publications (the engine republishes only after antes, at round close and at settlement); the pot-sum is asserted only there"},
	})
}

func checkC04(ctx *RunCtx) int {
	rep := NewReport()
	runHands(ctx, rep, 4, ctx.N(2000, 70000), GenOpts{Hostile: true}, commonScenarios(), nil, func() Monitor { return newC04Mon(1) })
	return finish(ctx, rep, &CheckSpec{
		Prop: "C04", Level: "exploration", EvalCounter: "refusal_probes", NonTrivSet: "nontrivial",
		Rule:        "at every wait point of every generated hand: (A) exactly the seat the turn-order shadow expects is offered actions; (B) on the live game every operation that is not the expected one is called - table operations in the wrong phase, every action on every seat that was not offered it, per-seat forced bets in the wrong phase - and must return an error and leave the JSON state identical (updated_at masked). evaluations = refused calls made; non-trivial = distinct wait points probed" + engineWorkloadNote + "",
		Required:    []string{"probes_table_op_wrong_phase", "probes_other_seat", "probes_current_seat_not_offered", "probes_action_outside_round", "first_actor_preflop_heads_up", "first_actor_postflop", "pass_only_seats"},
		Assumptions: []string{"Start() re-initialises a hand by design and is not probed mid-hand; the internal steps exposed on the Game interface (Deal, Burn, EmitEvent, ...) are not operations a driver may call"},
	})
}

func checkC05(ctx *RunCtx) int {
	rep := NewReport()
	runHands(ctx, rep, 5, ctx.N(6000, 300000), GenOpts{Hostile: false}, commonScenarios(), nil, func() Monitor { return &C05Mon{} })
	return finish(ctx, rep, &CheckSpec{
		Prop: "C05", Level: "exploration", EvalCounter: "hands", NonTrivSet: "nontrivial",
		Rule:     "generated hands with raise / short all-in / fold mixes; a per-street shadow (turn step per seat, step of last wager increase, turns since last increase or all-in) is checked at every closure (matched, had a turn), after every action (one lap bound, immediate closure when one player is left) and on every Next() (early end without dealing, run-out without betting, five-card board at showdown). Non-trivial = distinct hands whose closed rounds followed both a raise and a non-raising all-in" + engineWorkloadNote + "",
		Required: []string{"rounds_closed_checked", "early_endings", "runout_streets", "showdowns", "closed_by_last_fold", "runout_showdowns"},
	})
}

func invalidStartGrid(ctx *RunCtx, rep *Report) {
	type sc struct {
		name string
		mut  func(o *pokerface.GameOptions)
		ok   bool
	}
	base := func(n int) *pokerface.GameOptions {
		c := &Cfg{N: n, SB: 5, BB: 10, Limit: "no", Hole: 2}
		for i := 0; i < n; i++ {
			c.Banks = append(c.Banks, 100)
		}
		if n < 2 {
			// positions helper needs n>=2; build by hand
			o := pokerface.NewStardardGameOptions()
			o.Deck = pokerface.NewStandardDeckCards()
			for i := 0; i < n; i++ {
				o.Players = append(o.Players, &pokerface.PlayerSetting{Bankroll: 100, Positions: []string{"dealer"}})
			}
			return o
		}
		return c.Opts()
	}
	var cases []sc
	for n := 0; n <= 1; n++ {
		n := n
		cases = append(cases, sc{fmt.Sprintf("players=%d", n), func(o *pokerface.GameOptions) { *o = *base(n) }, false})
	}
	for n := 2; n <= 9; n++ {
		n := n
		cases = append(cases, sc{fmt.Sprintf("valid-%d", n), func(o *pokerface.GameOptions) { *o = *base(n) }, true})
		cases = append(cases, sc{fmt.Sprintf("no-dealer-%d", n), func(o *pokerface.GameOptions) {
			*o = *base(n)
			for _, p := range o.Players {
				pos := []string{}
				for _, x := range p.Positions {
					if x != "dealer" {
						pos = append(pos, x)
					}
				}
				p.Positions = pos
			}
		}, false})
		cases = append(cases, sc{fmt.Sprintf("empty-deck-%d", n), func(o *pokerface.GameOptions) { *o = *base(n); o.Deck = []string{} }, false})
		cases = append(cases, sc{fmt.Sprintf("nil-deck-%d", n), func(o *pokerface.GameOptions) { *o = *base(n); o.Deck = nil }, false})
		for k := 0; k < n; k++ {
			k := k
			for _, b := range []int64{0, -1, -1000} {
				b := b
				cases = append(cases, sc{fmt.Sprintf("bankroll%d-seat%d-of-%d", b, k, n), func(o *pokerface.GameOptions) { *o = *base(n); o.Players[k].Bankroll = b }, false})
			}
		}
	}
	// every case twice: on a fresh game object, and on an object that has just played a hand at a bigger
	// table and is given the case's options with ApplyOptions (a pooled object)
	type run struct {
		sc
		reused bool
	}
	var runs []run
	for _, c := range cases {
		runs = append(runs, run{c, false}, run{c, true})
	}
	for _, c := range runs {
		o := &pokerface.GameOptions{}
		c.mut(o)
		var err error
		var pan interface{}
		func() {
			defer func() { pan = recover() }()
			if c.reused {
				pc := &Cfg{N: 9, SB: 5, BB: 10, Limit: "no", Hole: 2, Deck: baseDeck(false)}
				for i := 0; i < 9; i++ {
					pc.Banks = append(pc.Banks, 100)
				}
				g := playPrefix(pc, 1000)
				g.ApplyOptions(o)
				err = g.Start()
				rep.Inc("start_grid_cases_on_reused_object")
				return
			}
			g := pokerface.NewPokerFace().NewGame(o)
			err = g.Start()
		}()
		if c.reused {
			c.name += " (re-used object)"
		}
		rep.Inc("start_grid_cases")
		if c.ok {
			rep.Inc("start_accepts_checked")
		} else {
			rep.Inc("start_refusals_checked")
		}
		if pan != nil {
			rep.Violate(&Violation{Prop: ctx.Prop, Rule: "C06/start-panicked", Cause: "config=" + strings.SplitN(c.name, "-", 2)[0], Msg: fmt.Sprintf("Start() on %s panicked: %v", c.name, pan), Kind: "start", Case: c.name})
			continue
		}
		if c.ok && err != nil {
			rep.Violate(&Violation{Prop: ctx.Prop, Rule: "C06/valid-start-refused", Cause: "config=valid", Msg: fmt.Sprintf("Start() on %s: %v", c.name, err), Kind: "start", Case: c.name})
		}
		if !c.ok && err == nil {
			key := c.name
			if i := strings.IndexAny(key, "-0123456789="); i > 0 {
				key = key[:i]
			}
			rep.Violate(&Violation{Prop: ctx.Prop, Rule: "C06/invalid-start-accepted", Cause: "config=" + key, Msg: fmt.Sprintf("Start() accepted %s", c.name), Kind: "start", Case: c.name})
		}
	}
}

func checkC06(ctx *RunCtx) int {
	rep := NewReport()
	invalidStartGrid(ctx, rep)
	// adversarial strategies: everybody min-raises / raises by one chip
	tweak := func(c *Cfg, r *rand.Rand) {
		if r.Intn(5) == 0 {
			for i := range c.Personas {
				c.Personas[i] = personaMinRaiser
			}
			unit, top := c.BB, int64(0)
			if c.Dl > unit {
				unit = c.Dl
			}
			for _, b := range c.Banks {
				if b > top {
					top = b
				}
			}
			if r.Intn(4) == 0 && unit > 0 && top <= 400*unit {
				// a raising war that only ends when the chips are in: the minimum raise, every time (on tables
				// where that takes a few hundred raises at most - the driver's step bound is 6000)
				for i := range c.Personas {
					c.Personas[i] = personaWar
				}
				c.Hostile = false
			}
		}
		boardPlaysTweak(c, r)
	}
	runHands(ctx, rep, 6, ctx.N(6000, 300000), GenOpts{Hostile: true, Unlabelled: true}, commonScenarios(), tweak, func() Monitor { return &C06Mon{} })
	// independent hands on several goroutines under the race detector: games share nothing by design, a
	// data race between them ends in a crash or a hang sooner or later
	extra := map[string]interface{}{}
	if reports, pairs, out, ok, why := runRaceChild(ctx, "c06race", fmt.Sprint(ctx.Seed), fmt.Sprint(ctx.N(400, 6000))); !ok {
		extra["race_run"] = "not run: " + why
	} else {
		rep.Add("race_detector_runs", 1)
		rep.Add("race_build_hands", int64(parseKV(out, "hands")))
		rep.Add("race_build_hands_closed", int64(parseKV(out, "closed")))
		extra["race_reports"] = reports
		for p, n := range pairs {
			rep.Violate(&Violation{Prop: "C06", Rule: "C06/data-race-between-independent-hands", Cause: p, Msg: fmt.Sprintf("race detector: %d report(s) between %s while independent hands are played on 8 goroutines", n, p), Kind: "conc", Case: firstLines(out, 40)})
			rep.ViolCount["C06/data-race-between-independent-hands|"+p] += int64(n) - 1
		}
		if k := parseKV(out, "panics"); k > 0 {
			rep.Violate(&Violation{Prop: "C06", Rule: "C06/panic", Cause: "concurrent-hands", Msg: fmt.Sprintf("%d hands panicked while independent hands were played on 8 goroutines: %s", k, firstLines(out, 12)), Kind: "conc", Case: firstLines(out, 40)})
		}
	}
	return finish(ctx, rep, &CheckSpec{
		Extra: extra,
		Prop:  "C06", Level: "exploration", EvalCounter: "hands", NonTrivSet: "nontrivial",
		Rule:        "invalid-start grid (0/1 players, no dealer, zero/negative bankroll on each seat, empty/nil deck, for 2-9 seats) plus generated hands incl. never-stop-raising strategies; after every accepted operation the state must be one of the five wait events or GameClosed, follow the linear automaton ready->[ante]->[blinds]->(ready->started->closed | closed) per street ->GameClosed, strictly decrease the variant (stage, chips behind + live players, lap budget), have a result iff closed; the result lists every seat and takes from a folded player, whose chips were all covered by a player still in the hand, exactly those chips (also when the hand was resumed from its JSON state right before the settling Next()); an operation that is not the awaited one - through the Game or through a seat's Player handle (late per-seat PayAnte/PayBlinds) - must be refused; after close every operation on every seat (incl. per-seat PayAnte/PayBlinds) must fail and change nothing. Termination is restated as bounded progress on observed transitions (no finite run decides 'every path is finite'); a hand whose engine call does not come back within 45 s is replayed alone in a child process and reported only if the call does not return there either. One table in eight carries the dealer mark only (no sb/bb seat). Non-trivial = distinct completed hands. Independent hands are also played on eight goroutines in a -race build (no race report, no panic)." + engineWorkloadNote,
		Required:    []string{"transitions_checked", "after_close_probes", "start_refusals_checked", "start_accepts_checked", "hands_closed", "race_build_hands_closed"},
		Assumptions: []string{"liveness restated as bounded progress: the variant is checked on every observed transition; it is not a proof over unobserved states", "decks have at least hole*n+8 cards (the engine does not validate deck size beyond non-empty; configuration precondition)"},
	})
}

var raceRe = regexp.MustCompile(`WARNING: DATA RACE`)

// runRaceChild runs the -race build of this harness with a sub-command and returns the number of
// race reports, the deduplicated entry-point pairs, and whether the child ran at all
func runRaceChild(ctx *RunCtx, args ...string) (reports int, pairs map[string]int, stdout string, ok bool, why string) {
	bin := os.Getenv("VP_RACE_BIN")
	if bin == "" {
		return 0, nil, "", false, "VP_RACE_BIN not set"
	}
	logDir, err := os.MkdirTemp("", "vprace")
	if err != nil {
		return 0, nil, "", false, err.Error()
	}
	defer os.RemoveAll(logDir)
	cmd := exec.Command(bin, args...)
	cmd.Env = append(os.Environ(), "GORACE=halt_on_error=0 log_path="+filepath.Join(logDir, "race"))
	out, err := cmd.CombinedOutput()
	stdout = string(out)
	if err != nil {
		if _, isExit := err.(*exec.ExitError); !isExit {
			return 0, nil, stdout, false, err.Error()
		}
	}
	pairs = map[string]int{}
	files, _ := filepath.Glob(filepath.Join(logDir, "race*"))
	for _, f := range files {
		b, _ := os.ReadFile(f)
		txt := string(b)
		reports += len(raceRe.FindAllString(txt, -1))
		for _, blk := range strings.Split(txt, "WARNING: DATA RACE")[1:] {
			pairs[raceEntryPair(blk)]++
		}
	}
	if strings.Contains(stdout, "fatal error: concurrent map") {
		reports++
		pairs["fatal error: concurrent map access"]++
	}
	return reports, pairs, stdout, true, ""
}

var frameRe = regexp.MustCompile(`(?m)^  (github\.com/weedbox/pokerface\S*?)\(\)\s*$`)

// outermost /repo frames of the two stacks of a race report
func raceEntryPair(block string) string {
	parts := strings.Split(block, "Previous ")
	outer := func(s string) string {
		// stack section ends at the first blank line
		if i := strings.Index(s, "\n\n"); i >= 0 {
			s = s[:i]
		}
		ms := frameRe.FindAllStringSubmatch(s, -1)
		if len(ms) == 0 {
			return "?"
		}
		return ms[len(ms)-1][1]
	}
	a := outer(parts[0])
	b := "?"
	if len(parts) > 1 {
		b = outer(parts[1])
	}
	if a > b {
		a, b = b, a
	}
	return a + " <-> " + b
}

func checkC07(ctx *RunCtx) int {
	rep := NewReport()
	// CreateGame: first wait point, deck is a permutation
	nb := table.NewNativeBackend()
	for i := 0; i < ctx.N(300, 5000); i++ {
		c := genCfg(caseRand(ctx.Seed, 77, i), GenOpts{})
		gs, err := nb.CreateGame(c.Opts())
		rep.Inc("create_game_checked")
		if err != nil || gs == nil || gs.Status.CurrentEvent != "ReadyRequested" || !sameMultiset(gs.Meta.Deck, baseDeck(c.Short)) || gs.Status.CurrentDeckPosition != 0 {
			rep.Violate(&Violation{Prop: "C07", Rule: "C07/create-game", Cause: "at=start", Msg: fmt.Sprintf("CreateGame: err=%v state=%v", err, gs != nil), Kind: "hand", Case: map[string]interface{}{"cfg": c}})
		}
	}
	nF3 := ctx.N(12, 300)
	runHands(ctx, rep, 7, ctx.N(2000, 60000), GenOpts{Hostile: true}, commonScenarios(), nil, func() Monitor { return &C07Mon{} })
	// real restarts: a fresh OS process per operation (fewer hands; serial spawns are slow)
	saved := ctx.Workers
	runHands(ctx, rep, 8, nF3, GenOpts{Hostile: true}, nil, nil, func() Monitor { return &C07Mon{useF3: true} })
	ctx.Workers = saved
	// statelessness under the race detector
	extra := map[string]interface{}{}
	reports, pairs, out, ok, why := runRaceChild(ctx, "c07race", fmt.Sprint(ctx.Seed), fmt.Sprint(ctx.N(40, 400)))
	if !ok {
		extra["race_run"] = "not run: " + why
	} else {
		rep.Add("race_detector_runs", 1)
		rep.Add("race_hands_through_shared_backend", int64(parseKV(out, "hands")))
		rep.Add("race_backend_calls", int64(parseKV(out, "calls")))
		extra["race_reports"] = reports
		if reports > 0 {
			for p, n := range pairs {
				rep.ViolCount["C07/backend-data-race|"+p] += int64(n) - 1
				rep.Violate(&Violation{Prop: "C07", Rule: "C07/backend-data-race", Cause: p, Msg: fmt.Sprintf("race detector: %d report(s) between %s while 16 goroutines share one NativeBackend", n, p), Kind: "conc", Case: firstLines(out, 60)})
			}
		}
		if strings.Contains(out, "DIVERGED") {
			rep.Violate(&Violation{Prop: "C07", Rule: "C07/backend-shared-state", Cause: "concurrent", Msg: "hands driven concurrently through one shared NativeBackend diverged from their sequential replays: " + firstLines(out, 10), Kind: "conc", Case: firstLines(out, 30)})
		}
	}
	return finish(ctx, rep, &CheckSpec{
		Prop: "C07", Level: "fault_enumeration", EvalCounter: "cut_points", NonTrivSet: "nontrivial",
		Rule:        "fault = everything that is not in the JSON is lost, injected at every wait point of every generated hand: before each operation the game is rebuilt from the JSON of that wait point (F1), the stateless table.NativeBackend is fed its own previous output (F2, input must stay untouched) and, for a subset of hands, a fresh OS process per operation carries the state (F3); all must agree with the in-memory game (error-ness and JSON, updated_at masked) after every operation, refused hostile amounts included. Each hand is replayed from scratch and must reproduce the same JSON trace; 16 goroutines share one backend under the Go race detector. evaluations = cut points (one per operation); non-trivial = distinct (hand, cut index)" + engineWorkloadNote + "",
		Required:    []string{"cut_points", "backend_calls", "deterministic_replays", "fresh_process_operations", "create_game_checked", "race_detector_runs", "cut_at_RoundStarted", "cut_at_RoundClosed", "cut_at_ReadyRequested", "cut_at_BlindsRequested", "cut_at_AnteRequested"},
		Extra:       extra,
		Assumptions: []string{"CreateGame's own shuffle cannot be pinned; only its wait point and deck multiset are checked", "the race detector reports only races that occur in the executed schedule"},
	})
}

func parseKV(out, key string) int {
	re := regexp.MustCompile(key + `=(\d+)`)
	m := re.FindStringSubmatch(out)
	if m == nil {
		return 0
	}
	var n int
	fmt.Sscan(m[1], &n)
	return n
}

func checkC11(ctx *RunCtx) int {
	rep := NewReport()
	runHands(ctx, rep, 11, ctx.N(6000, 300000), GenOpts{Hostile: false}, commonScenarios(), nil, func() Monitor { return &C11Mon{} })
	return finish(ctx, rep, &CheckSpec{
		Prop: "C11", Level: "exploration", EvalCounter: "offers_checked", NonTrivSet: "nontrivial",
		Rule:        "at every RoundStarted wait point the offered list of the seat to act is compared with the situation table (facing?, holds vs wager to match, vs wager+minimum raise, vs minimum bet, nobody wagered yet); after the chosen action the effect oracle checks other seats untouched, check/fold/pass move nothing, call reaches max(wager to match, big blind) capped at the stack and is level if chips remain, bet(x<stack) makes x the wager to match, all-in moves exactly the stack. Non-trivial = distinct (situation signs, offered list)" + engineWorkloadNote + "",
		Required:    []string{"effect_call", "effect_bet", "effect_raise", "effect_allin", "effect_fold", "effect_check", "effect_pass", "class_pass_only", "bets_below_stack", "calls_completed_to_bb"},
		Assumptions: []string{"'holds' is read as the round-start stack (initial_stack_size): call/raise levels are totals for the round", "a call completes to one big blind whenever the standing wager is below it, on every street (repo tests Test_Actions_CallTo1BBInPreflop and Test_Actions_EmptySB_Basic pin this); the oracle fixes the amount exactly under that reading"},
	})
}

func checkC12(ctx *RunCtx) int {
	rep := NewReport()
	runHands(ctx, rep, 12, ctx.N(6000, 300000), GenOpts{Hostile: true}, commonScenarios(), nil, func() Monitor { return &C12Mon{} })
	return finish(ctx, rep, &CheckSpec{
		Prop: "C12", Level: "exploration", EvalCounter: "raise_requests", NonTrivSet: "nontrivial",
		Rule:        "every Bet(x)/Raise(x) of generated hands with amounts from {boundary values around minimum raise / stack / wager, 0, -1, -50, -2^40, 2^50, MaxInt64, MinInt64}; a shadow 'size of the previous bet or raise' (blinds -> BB, bet -> chips actually wagered, exact raise -> increment, all-in -> increment if not smaller) decides: legal raise below the stack carried out exactly, undersized never carried out with chips left, below the wager refused unchanged; every state: wager to match monotone within a street, nothing negative, stack <= bankroll. evaluations = raise requests; non-trivial = distinct (class, wager, minimum, stack, level)" + engineWorkloadNote + "",
		Required:    []string{"raise_exact_minimum", "raise_below_minimum", "raise_above_minimum", "raise_at_or_above_stack", "raise_below_wager", "raise_zero", "raise_negative", "raise_huge", "bet_negative", "bet_zero", "bet_huge", "bet_at_or_above_stack", "bet_below_minimum", "exact_raises_checked", "raises_turned_allin"},
		Assumptions: []string{"Raise(L) with L equal to the wager to match is handed to call by the engine and is exempt from the raise clauses", "the exactness clause is checked for no-limit only (as stated); pot-limit hands get monotonicity and non-negativity"},
	})
}

func c13Grid() []handCase {
	var out []handCase
	type bl struct {
		ante, dl, sb, bb int64
		dead             bool
	}
	settings := []bl{
		{0, 0, 5, 10, false}, {2, 0, 5, 10, false}, {10, 0, 5, 10, false}, {25, 0, 5, 10, false}, // ante > blinds
		{0, 0, 0, 10, false}, {3, 0, 0, 10, false}, // big blind only
		{0, 10, 0, 0, false}, {5, 100, 0, 0, false}, // dealer blind only
		{0, 10, 5, 10, false}, {1, 20, 5, 10, false}, // dealer blind + blinds
		{0, 0, 5, 10, true}, {2, 0, 5, 10, true}, // dead small blind
		{0, 0, 10, 10, false}, {1, 1, 1, 3, false},
	}
	for n := 2; n <= 9; n++ {
		for d := 0; d < n; d += maxInt(1, n/3) {
			for _, b := range settings {
				if b.dead && n < 3 {
					continue
				}
				base := &Cfg{N: n, Ante: b.ante, Dl: b.dl, SB: b.sb, BB: b.bb, DeadSB: b.dead, Limit: "no", Hole: 2, DealerIdx: d}
				for i := 0; i < n; i++ {
					base.Banks = append(base.Banks, 1000)
				}
				// vary one forced seat at a time
				forcedSeats := []int{base.SeatOf("dealer"), base.SeatOf("bb")}
				if s := base.SeatOf("sb"); s >= 0 {
					forcedSeats = append(forcedSeats, s)
				}
				forcedSeats = append(forcedSeats, (base.SeatOf("bb")+1)%n) // a seat without a blind
				seenSeat := map[int]bool{}
				for _, seat := range forcedSeats {
					if seenSeat[seat] {
						continue
					}
					seenSeat[seat] = true
					owed := base.BlindOwed(seat)
					cands := []int64{1, b.ante - 1, b.ante, b.ante + 1, owed - 1, owed, owed + 1, b.ante + owed - 1, b.ante + owed, b.ante + owed + 1}
					seenB := map[int64]bool{}
					for _, bank := range cands {
						if bank <= 0 || seenB[bank] {
							continue
						}
						seenB[bank] = true
						c := *base
						c.Banks = append([]int64{}, base.Banks...)
						c.Banks[seat] = bank
						c.Deck = fullDeck(false)
						c.Personas = make([]int, n)
						for i := range c.Personas {
							c.Personas[i] = personaCaller
						}
						out = append(out, handCase{&c, nil})
					}
				}
			}
		}
	}
	return out
}

func checkC13(ctx *RunCtx) int {
	rep := NewReport()
	grid := c13Grid()
	if !ctx.Thorough() {
		// quick: a seed-determined third of the grid (the rest comes from the random generator's boundary band)
		r := caseRand(ctx.Seed, 13, 0)
		var sub []handCase
		for _, g := range grid {
			if r.Intn(3) == 0 {
				sub = append(sub, g)
			}
		}
		grid = append(sub, grid[:40]...)
	}
	rep.Add("grid_configurations", int64(len(grid)))
	runHands(ctx, rep, 13, ctx.N(4000, 200000), GenOpts{}, grid, nil, func() Monitor { return &C13Mon{} })
	return finish(ctx, rep, &CheckSpec{
		Prop: "C13", Level: "exploration", EvalCounter: "blind_phases_checked", NonTrivSet: "nontrivial",
		Rule:        "systematic grid (2-9 seats x button positions x 14 ante/blind settings incl. big-blind-only, dealer-blind-only, dead small blind, ante above blinds x one forced seat at a time with bankroll at -1/0/+1 of ante, blind, ante+blind, and 1) plus random configurations; the oracle is evaluated on the first state of the hand that lies after the blind phase (so a skipped blind phase is seen), and right after PayAnte. Non-trivial = distinct (seats, button, forced amounts, bankroll vector)" + engineWorkloadNote + "",
		Required:    []string{"class_stack_below_ante", "class_stack_equals_ante", "class_short_blind", "class_exact_blind", "class_blind_plus_one", "class_short_dealer_blind", "class_bb_only", "class_dealer_blind_only", "class_dead_sb", "class_heads_up"},
		Assumptions: []string{"a seat holding several blind positions posts one blind, the first positive of big blind, small blind, dealer blind (heads-up dealer+sb pays the small blind)"},
	})
}

func checkC14(ctx *RunCtx) int {
	rep := NewReport()
	// ShuffleCards on arbitrary decks: same cards, each once
	nsh := ctx.N(20000, 200000)
	runCases(ctx, rep, 140, nsh, func(i int, r *rand.Rand, local *Report) {
		var d []string
		switch r.Intn(5) {
		case 0:
			d = baseDeck(r.Intn(2) == 0)
		case 1:
			d = baseDeck(false)[:r.Intn(53)]
		case 2:
			n := r.Intn(80)
			b := baseDeck(false)
			for k := 0; k < n; k++ {
				d = append(d, b[r.Intn(len(b))]) // duplicates allowed
			}
		case 3:
			d = []string{}
			if r.Intn(2) == 0 {
				d = []string{"SA"}
			}
		default:
			n := 1 + r.Intn(20)
			for k := 0; k < n; k++ {
				d = append(d, fmt.Sprintf("X%d", r.Intn(6)))
			}
		}
		in := append([]string{}, d...)
		var out []string
		var pan interface{}
		func() {
			defer func() { pan = recover() }()
			out = pokerface.ShuffleCards(d)
		}()
		local.Inc("direct_shuffles")
		if pan != nil || !sameMultiset(in, out) || !sameMultiset(in, d) {
			local.Violate(&Violation{Prop: "C14", Rule: "C14/shuffle", Cause: "source=direct", Msg: fmt.Sprintf("ShuffleCards(%v) -> %v (panic %v)", in, out, pan), Kind: "shuffle", Case: in})
		}
	})
	runHands(ctx, rep, 14, ctx.N(6000, 300000), GenOpts{}, commonScenarios(), nil, func() Monitor { return &C14Mon{} })
	return finish(ctx, rep, &CheckSpec{
		Prop: "C14", Level: "exploration", EvalCounter: "hands", NonTrivSet: "nontrivial",
		Rule:        "deck ledger after every operation of generated hands on a pinned deck: hole+board+burned = consumed top of the deck as multisets, deck itself unchanged, hole-card count, (board,burned) sizes per street, board grows by appending, hole cards frozen; the same ledger on the state a refused expected step leaves behind (a street announced but not dealt); tables that use the deck to its last card are among the generated ones; the deck after Start() and ShuffleCards on random decks (duplicates, length 0/1) keep the multiset. Non-trivial = distinct (consumed deck prefix, seats, hole cards)" + engineWorkloadNote + "",
		Required:    []string{"hands_early_end", "hands_allin_runout", "hands_full_showdown", "shuffles_checked", "direct_shuffles"},
		Assumptions: []string{"Meta.BurnCount is ignored by the engine; one card is always burned, which is what the property states"},
	})
}

func checkC15(ctx *RunCtx) int {
	rep := NewReport()
	every := 1
	runHands(ctx, rep, 15, ctx.N(1000, 40000), GenOpts{ShowdownBias: true}, commonScenarios(), nil, func() Monitor { return &C15Mon{every: every} })
	return finish(ctx, rep, &CheckSpec{
		Prop: "C15", Level: "exploration", EvalCounter: "oracle_evaluations", NonTrivSet: "nontrivial",
		Rule:     "for every reachable state of generated hands and every viewer (each seat and the observer), on a JSON clone: the whole JSON text of the view is scanned for card tokens and each must be in board + own hole cards (+ hole cards of non-folded seats once closed); other seats' evaluation absent before close and for folded seats after; the view must equal the state with exactly the stated redaction applied (nothing public changed, own cards kept). evaluations = views checked; non-trivial = distinct states viewed" + engineWorkloadNote + "",
		Required: []string{"class_closed_showdown_with_folds", "class_closed_by_fold", "class_open_with_burned_cards", "states_viewed"},
	})
}

func checkC16(ctx *RunCtx) int {
	rep := NewReport()
	enumeratePotVecs(ctx, rep, "C16", ctx.Thorough())
	runCases(ctx, rep, 160, ctx.N(300000, 5000000), func(i int, r *rand.Rand, local *Report) {
		v := genPotVec(r)
		checkPotVecC16("C16", v, local, ctx.Seed, i)
		if i%100000 == 1 {
			local.Sample(v, 2)
		}
	})
	runHands(ctx, rep, 16, ctx.N(3000, 100000), GenOpts{}, commonScenarios(), nil, func() Monitor { return &C16Mon{} })
	// ante tables: many tables whose stacks lie around the ante (several seats short of it by different
	// amounts), played up to the ante step only - side pots made of antes alone
	runCases(ctx, rep, 161, ctx.N(40000, 600000), func(i int, r *rand.Rand, local *Report) {
		c := genCfg(r, GenOpts{noReuse: true})
		c.Noise, c.Hostile = false, false
		c.Ante = []int64{2, 3, 4, 5, 6, 10}[r.Intn(6)]
		for k := range c.Banks {
			if r.Intn(4) != 0 {
				c.Banks[k] = 1 + int64(r.Intn(int(c.Ante)+1))
			}
		}
		h := &Hand{Prop: "C16", C: c, R: r, Rep: local, Seed: ctx.Seed, CaseIdx: i}
		defer func() {
			if e := recover(); e != nil {
				h.Fail("C16/panic", "source=engine", fmt.Sprintf("the engine panicked on an ante table: %v", e))
			}
		}()
		g := newGameFor(c)
		if g.Start() != nil {
			return
		}
		copy(g.GetState().Meta.Deck, c.Deck)
		if g.ReadyForAll() != nil || g.GetState().Status.CurrentEvent != "AnteRequested" {
			return
		}
		h.Trace = append(h.Trace, TraceStep{Op: Op{Name: "ready", Seat: -1}}, TraceStep{Op: Op{Name: "ante", Seat: -1}})
		if g.PayAnte() != nil {
			return
		}
		post := g.GetState()
		n := len(post.Players)
		contrib, fold := make([]int64, n), make([]bool, n)
		short := 0
		for _, p := range post.Players {
			contrib[p.Idx] = p.Pot + p.Wager
			fold[p.Idx] = p.Fold
			if contrib[p.Idx] < c.Ante {
				short++
			}
		}
		local.Inc("oracle_evaluations")
		local.Inc("ante_tables")
		if short >= 2 {
			local.Inc("class_ante_table_with_two_or_more_short_seats")
		}
		if rule, msg := checkPots(contrib, fold, post.Status.Pots); rule != "" {
			h.Fail(rule, "source=engine", "after antes (ante table): "+msg)
		}
	})
	return finish(ctx, rep, &CheckSpec{
		Prop: "C16", Level: "exploration", EvalCounter: "oracle_evaluations", NonTrivSet: "nontrivial",
		Rule:        "pot.LevelList fed contribution/fold vectors directly (small domain enumerated completely in thorough: n<=6, contributions in {0,1,2,3,5}, all fold flags; random n<=10 with zero/equal/large values, every vector inserted in a random order) and the pots the engine publishes after antes, at every RoundClosed and at GameClosed, plus a block of tables whose stacks lie around the ante, played up to the ante step (side pots made of antes alone); compared with an independent partition: strictly increasing levels, per-band totals, per-pot amount, live seats listed iff they reached the level, strictly shrinking live sets, sum = all chips. Non-trivial = distinct (rank pattern of contributions x fold flags) with >= 2 pots" + engineWorkloadNote + "",
		Required:    []string{"multi_pot_vectors", "multi_pot_publications", "class_zero_contribution", "class_equal_contributions", "published_RoundClosed", "published_GameClosed", "published_AntePaid", "class_ante_table_with_two_or_more_short_seats"},
		Assumptions: []string{"the engine lists folded seats in Contributors with their whole contribution; 'eligible' is read as contributors minus folded and nothing is asserted about folded entries"},
	})
}

// small-domain enumeration of direct pot vectors
func enumeratePotVecs(ctx *RunCtx, rep *Report, prop string, full bool) {
	vals := []int64{0, 1, 2, 3, 5}
	maxN := 4
	if full {
		maxN = 6
	}
	if prop == "C02" {
		maxN = 4
		if full {
			maxN = 5
		}
	}
	for n := 2; n <= maxN; n++ {
		total := 1
		for i := 0; i < n; i++ {
			total *= len(vals) * 2
		}
		n := n
		runCases(ctx, rep, int64(1000+n), total, func(idx int, r *rand.Rand, local *Report) {
			v := &PotVec{}
			x := idx
			for i := 0; i < n; i++ {
				v.C = append(v.C, vals[x%len(vals)])
				x /= len(vals)
				v.F = append(v.F, x%2 == 1)
				x /= 2
			}
			local.Inc("enumerated_vectors")
			if prop == "C16" {
				v.Order = r.Perm(n)
				checkPotVecC16(prop, v, local, ctx.Seed, idx)
				return
			}
			// C02: all strength vectors over {1,2} (n=5) or {1,2,3}
			smax := 3
			if n >= 5 {
				smax = 2
			}
			cnt := 1
			for i := 0; i < n; i++ {
				cnt *= smax
			}
			for s := 0; s < cnt; s++ {
				w := &PotVec{C: v.C, F: v.F, Order: r.Perm(n)}
				y := s
				for i := 0; i < n; i++ {
					w.S = append(w.S, 1+y%smax)
					y /= smax
				}
				checkPotVecC02(prop, w, local, ctx.Seed, idx)
			}
		})
	}
}

func checkC02(ctx *RunCtx) int {
	rep := NewReport()
	enumeratePotVecs(ctx, rep, "C02", ctx.Thorough())
	// the n=5 slice sampled in quick, and random large/odd vectors
	runCases(ctx, rep, 20, ctx.N(200000, 3000000), func(i int, r *rand.Rand, local *Report) {
		v := genPotVec(r)
		if i%4 == 0 {
			// five to seven seats, small distinct totals, many folds, two strengths: ties across several levels of one pot
			n := 5 + r.Intn(3)
			v = &PotVec{Order: r.Perm(n)}
			for k := 0; k < n; k++ {
				v.C = append(v.C, int64(r.Intn(8)))
				v.F = append(v.F, r.Intn(2) == 0)
				v.S = append(v.S, 1+r.Intn(2))
			}
		}
		checkPotVecC02("C02", v, local, ctx.Seed, i)
		if i%100000 == 1 {
			local.Sample(v, 2)
		}
	})
	tweak := func(c *Cfg, r *rand.Rand) {
		if c.Req == 0 && r.Intn(5) == 0 {
			stackBoard(c, []string{"ST", "SJ", "SQ", "SK", "SA"}) // the board plays: n-way ties
		}
		boardPlaysTweak(c, r)
	}
	runHands(ctx, rep, 2, ctx.N(4000, 150000), GenOpts{ShowdownBias: true}, commonScenarios(), tweak, func() Monitor { return &C02Mon{} })
	return finish(ctx, rep, &CheckSpec{
		Prop: "C02", Level: "exploration", EvalCounter: "oracle_evaluations", NonTrivSet: "nontrivial",
		Rule:        "(a) direct: contribution/fold/strength vectors given to pot.LevelList and settlement.Result (small domain enumerated: n<=4 over contributions {0,1,2,3,5} x folds x strengths {1,2,3}, n=5 with strengths {1,2} in thorough; random n<=10 incl. 5-7 seat vectors with many folded levels); (b) real play to showdown with caller/maniac strategies, antes, >=5 seats, decks stacked so that the board plays in 1/5 of the hands; expected winners come from an independent hand evaluator over the best admissible selection. Oracle: each player's gross collection lies between sum of floor and ceil shares of the pots they win, folded players collect nothing, tied winners of one pot are recorded with shares differing by <= 1, changes sum to zero. Non-trivial = distinct cases with >= 2 pots or a tie" + engineWorkloadNote + "",
		Required:    []string{"vectors_multi_pot_or_tie", "hands_multi_pot_or_tie", "hands_with_split_pot", "showdowns_checked", "scripted_hands"},
		Assumptions: []string{"a layer with no live payer (only constructible by direct input) is not described by the property: only zero-sum and 'folded never collects' are asserted there", "which tied winner receives an odd chip is not fixed", "short-deck hands in which an A-6-7-8-9 selection is available to a live player are skipped (class left open by C03)"},
	})
}

func checkC10(ctx *RunCtx) int {
	rep := NewReport()
	// direct draws: reach rare categories and all hole-card usages
	runCases(ctx, rep, 100, ctx.N(120000, 4000000), func(i int, r *rand.Rand, local *Report) {
		short := r.Intn(3) == 0
		req, nh := 0, 2
		if r.Intn(3) == 0 {
			req, nh = 2, 4
		}
		pr := (&Cfg{Short: short}).Rankings()
		d := shuffledDeck(r, short)
		if r.Intn(3) == 0 {
			// bias: keep two suits / a narrow rank window so that flushes, straights and full houses are common
			var nd []string
			lo := 6 + r.Intn(5)
			for _, c := range d {
				if (c[0] == 'S' || c[0] == 'H') && r.Intn(2) == 0 || (rankOf(c[1]) >= lo && rankOf(c[1]) <= lo+5) {
					nd = append(nd, c)
				}
			}
			if len(nd) >= 12 {
				d = nd
			}
		}
		hole := d[:nh]
		board := d[nh : nh+3+r.Intn(3)]
		if i%6 == 5 {
			// a long suited run (ace low or high): several straight flushes available to one seat, the cards
			// split between hand and board in every order
			hole, board = suitedRun(r, short, nh)
		}
		var info *pokerface.CombinationInfo
		var pan interface{}
		func() {
			defer func() { pan = recover() }()
			info = engineBest(hole, board, req, pr)
		}()
		local.Inc("oracle_evaluations")
		local.Inc("direct_draws")
		if pan != nil {
			local.Violate(&Violation{Prop: "C10", Rule: "C10/panic", Cause: fmt.Sprintf("required=%d", req), Msg: fmt.Sprint(pan), Kind: "eval", Case: map[string]interface{}{"hole": hole, "board": board, "required": req, "short": short}})
			return
		}
		rule, msg, cat, nhUsed := checkBestHand(hole, board, req, short, pr, info)
		if rule != "" {
			local.Violate(&Violation{Prop: "C10", Rule: rule, Cause: fmt.Sprintf("required=%d,short=%v", req, short), Msg: msg, Kind: "eval", Case: map[string]interface{}{"hole": hole, "board": board, "required": req, "short": short}, Seed: ctx.Seed, CaseIndex: i})
			return
		}
		local.Inc("best_is_" + catName[cat])
		local.Inc(fmt.Sprintf("best_uses_%d_hole_cards", nhUsed))
		local.Seen("nontrivial", strings.Join(sortedCopy(hole), "")+"|"+strings.Join(sortedCopy(board), "")+fmt.Sprint(req, short))
		if i%50000 == 7 {
			local.Sample(map[string]interface{}{"hole": hole, "board": board, "required": req, "short": short, "reported": info}, 3)
		}
	})
	runHands(ctx, rep, 10, ctx.N(3000, 100000), GenOpts{ShowdownBias: true}, commonScenarios(), nil, func() Monitor { return &C10Mon{} })
	req := []string{"direct_draws", "best_uses_0_hole_cards", "best_uses_1_hole_cards", "best_uses_2_hole_cards"}
	for c := catHighCard; c <= catStraightFlush; c++ {
		req = append(req, "best_is_"+catName[c])
	}
	return finish(ctx, rep, &CheckSpec{
		Prop: "C10", Level: "exploration", EvalCounter: "oracle_evaluations", NonTrivSet: "nontrivial",
		Rule:        "every seat on every street of generated hands (both decks, 2 hole cards / 4 with exactly 2 required) plus direct (hole, board) draws through the engine's own publication path, biased to reach rare categories; own enumeration of admissible selections with an independent evaluator: reported cards are an admissible 5-set of the player's own cards, nothing admissible ranks higher, reported type = category of those cards, reported power = the evaluator's score of those cards. Non-trivial = distinct (hole, board, rule) evaluated" + engineWorkloadNote + "",
		Required:    req,
		Assumptions: []string{"selections that are A-6-7-8-9 in the short deck are left out of the comparison", "that the published strength is the one the showdown compares is closed by C02's real-play oracle (expected winners come from the independent evaluator)"},
	})
}

// engineBest runs the engine's own publication path (UpdateCombinationOfAllPlayers via a loaded
// state entering the river round is not reachable without dealing), so a game is rebuilt from a
// hand-made state that waits at RoundClosed and is moved on with Next(): the engine deals the
// next street from the deck we supply and publishes every player's combination.
func engineBest(hole, board []string, req int, pr combination.PowerRankings) *pokerface.CombinationInfo {
	// state: two players, seat 0 holds `hole`; the street before `board` is complete is closed
	prevRound := map[int]string{3: "preflop", 4: "flop", 5: "turn"}[len(board)]
	known := len(board) - 1
	if len(board) == 3 {
		known = 0
	}
	deck := []string{"XX"} // burn card placeholder never shown
	deck = append(deck, board[known:]...)
	gs := &pokerface.GameState{
		Meta:   pokerface.Meta{Blind: pokerface.BlindSetting{SB: 5, BB: 10}, Limit: "no", HoleCardsCount: len(hole), RequiredHoleCardsCount: req, CombinationPowers: pr, Deck: deck, BurnCount: 1},
		Status: pokerface.Status{Round: prevRound, CurrentEvent: "RoundClosed", Board: append([]string{}, board[:known]...), Burned: []string{}, MiniBet: 10},
		Players: []*pokerface.PlayerState{
			{Idx: 0, Positions: []string{"dealer", "sb"}, Bankroll: 100, InitialStackSize: 90, StackSize: 90, Pot: 10, HoleCards: append([]string{}, hole...), Combination: &pokerface.CombinationInfo{}},
			{Idx: 1, Positions: []string{"bb"}, Bankroll: 100, InitialStackSize: 90, StackSize: 90, Pot: 10, HoleCards: append([]string{}, hole...), Combination: &pokerface.CombinationInfo{}},
		},
	}
	g := pokerface.NewPokerFace().NewGameFromState(gs)
	if err := g.Next(); err != nil {
		panic("harness: engineBest: " + err.Error())
	}
	return g.GetState().Players[0].Combination
}

// suitedRun deals 6-7 consecutive cards of one suit (the ace may play low on the 52-card deck) plus
// random filler, split at random between hole cards and board
func suitedRun(r *rand.Rand, short bool, nh int) (hole, board []string) {
	order := []byte("A23456789TJQKA")
	if short {
		order = []byte("6789TJQKA")
	}
	suit := "SHDC"[r.Intn(4)]
	runLen := 6 + r.Intn(2)
	if runLen > len(order) {
		runLen = len(order)
	}
	start := r.Intn(len(order) - runLen + 1)
	used := map[string]bool{}
	var run []string
	for k := 0; k < runLen; k++ {
		c := string([]byte{suit, order[start+k]})
		if !used[c] {
			used[c] = true
			run = append(run, c)
		}
	}
	nb := 3 + r.Intn(3)
	var rest []string
	for _, c := range shuffledDeck(r, short) {
		if !used[c] {
			rest = append(rest, c)
		}
	}
	all := append([]string{}, run...)
	for len(all) < nh+nb {
		all = append(all, rest[0])
		rest = rest[1:]
	}
	all = all[:nh+nb]
	r.Shuffle(len(all), func(i, j int) { all[i], all[j] = all[j], all[i] })
	return all[:nh], all[nh:]
}
