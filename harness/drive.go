package main

import (
	"encoding/json"
	"fmt"
	"math/rand"
	"runtime/debug"
	"sort"
	"strings"

	"github.com/weedbox/pokerface"
)

// ---------------------------------------------------------------------------------------------
// State helpers

func cloneGS(gs *pokerface.GameState) *pokerface.GameState {
	b, err := json.Marshal(gs)
	if err != nil {
		panic("harness: marshal state: " + err.Error())
	}
	var st pokerface.GameState
	if err := json.Unmarshal(b, &st); err != nil {
		panic("harness: unmarshal state: " + err.Error())
	}
	return &st
}

// snapJSON is the JSON text of the state with only updated_at masked
func snapJSON(gs *pokerface.GameState) string {
	u := gs.UpdatedAt
	gs.UpdatedAt = 0
	b, err := json.Marshal(gs)
	gs.UpdatedAt = u
	if err != nil {
		panic("harness: marshal state: " + err.Error())
	}
	return string(b)
}

func applyOp(g pokerface.Game, op Op) error {
	if op.Seat >= 0 || op.Seat == seatMinusOne {
		idx := op.Seat
		if idx == seatMinusOne {
			idx = -1
		}
		p := g.Player(idx)
		if p == nil {
			return fmt.Errorf("harness: no such seat %d", idx)
		}
		switch op.Name {
		case "pass":
			return p.Pass()
		case "fold":
			return p.Fold()
		case "check":
			return p.Check()
		case "call":
			return p.Call()
		case "allin":
			return p.Allin()
		case "bet":
			return p.Bet(op.Amt)
		case "raise":
			return p.Raise(op.Amt)
		case "pay":
			return p.Pay(op.Amt)
		case "payante":
			return p.PayAnte()
		case "payblinds":
			return p.PayBlinds()
		}
		return fmt.Errorf("harness: unknown seat op %s", op.Name)
	}
	switch op.Name {
	case "ready":
		return g.ReadyForAll()
	case "ante":
		return g.PayAnte()
	case "blinds":
		return g.PayBlinds()
	case "next":
		return g.Next()
	case "pass":
		return g.Pass()
	case "fold":
		return g.Fold()
	case "check":
		return g.Check()
	case "call":
		return g.Call()
	case "allin":
		return g.Allin()
	case "bet":
		return g.Bet(op.Amt)
	case "raise":
		return g.Raise(op.Amt)
	case "pay":
		return g.Pay(op.Amt)
	}
	return fmt.Errorf("harness: unknown op %s", op.Name)
}

// Op.Seat == -1 means "through the Game-level method"; seat index -1 itself is addressed with this value
const seatMinusOne = -1000

func isWaitEvent(ev string) bool {
	switch ev {
	case "ReadyRequested", "AnteRequested", "BlindsRequested", "RoundStarted", "RoundClosed":
		return true
	}
	return false
}

func expectedTableOp(ev string) string {
	switch ev {
	case "ReadyRequested":
		return "ready"
	case "AnteRequested":
		return "ante"
	case "BlindsRequested":
		return "blinds"
	case "RoundClosed":
		return "next"
	}
	return ""
}

func sortedCopy(xs []string) []string {
	a := append([]string{}, xs...)
	sort.Strings(a)
	return a
}

func sameMultiset(a, b []string) bool {
	if len(a) != len(b) {
		return false
	}
	x, y := sortedCopy(a), sortedCopy(b)
	for i := range x {
		if x[i] != y[i] {
			return false
		}
	}
	return true
}

// ---------------------------------------------------------------------------------------------
// Hand: one execution of the engine under monitors

type TraceStep struct {
	Op   Op     `json:"op"`
	Err  string `json:"err,omitempty"`
	Kind string `json:"kind,omitempty"` // "" driver step | noise (unexpected operation, must be refused) | reload (state reloaded into the same game object) | probe (made by a monitor)
}

type Hand struct {
	Prop        string
	C           *Cfg
	G           pokerface.Game
	R           *rand.Rand
	Rep         *Report
	Trace       []TraceStep
	Seed        int64
	CaseIdx     int
	Aborted     bool     // a violation was reported: stop the hand to avoid cascades
	Shuffled    []string // deck as the engine's own shuffle left it (before pinning)
	Scripted    []Op     // if non-empty: actions to take (RoundStarted) instead of the strategy
	scriptPos   int
	Replaying   bool
	ReplayTrace []TraceStep // replay: execute exactly these steps (probe steps are re-made by the monitor)
	replayPos   int
	Opts        *pokerface.GameOptions // the options value the hand's game was made from (the table may start its next hand from the same value)
	prevDoc     *pokerface.GameState   // the state document of the previous wait point
	pre         func()                 // set-up that plays other hands first (runs inside playHand, under its recover and C06's guard)
	spare       pokerface.Game         // a used game object from the pool: the hand may move onto it (LoadState) mid-way
	lastInc     int64                  // size of the last bet or raise actually made in this round, as seen by the driver (0 = none yet)
}

func (h *Hand) caseJSON() interface{} {
	return map[string]interface{}{"cfg": h.C, "trace": h.Trace}
}

// Fail reports a violation observed in this hand and stops the hand
func (h *Hand) Fail(rule, cause, msg string) {
	h.Rep.Violate(&Violation{
		Prop: h.Prop, Rule: rule, Cause: cause, Msg: msg, Kind: "hand",
		Case: h.caseJSON(), Seed: h.Seed, CaseIndex: h.CaseIdx,
	})
	h.Aborted = true
}

func (h *Hand) lastOp() Op {
	if len(h.Trace) == 0 {
		return Op{Name: "start", Seat: -1}
	}
	return h.Trace[len(h.Trace)-1].Op
}

// cause key for "something is wrong right after this operation"
func opCause(op Op) string {
	s := "after=" + op.Name
	if op.Name == "bet" || op.Name == "raise" || op.Name == "pay" {
		switch {
		case op.Amt < 0:
			s += ",amount<0"
		case op.Amt == 0:
			s += ",amount=0"
		default:
			s += ",amount>0"
		}
	}
	return s
}

type Monitor interface {
	Begin(h *Hand)                                                                        // after Start() and deck pinning
	Wait(h *Hand, s *pokerface.GameState)                                                 // at every wait point and at GameClosed, before the next operation
	After(h *Hand, pre *pokerface.GameState, op Op, err error, post *pokerface.GameState) // after the driver's operation
	End(h *Hand, s *pokerface.GameState)                                                  // at GameClosed
	Panic(h *Hand, what string)                                                           // the engine panicked
	Stuck(h *Hand, why string)                                                            // driver cannot continue (not a wait point, expected step refused, ...)
	QueryChanged(h *Hand, what string)                                                    // read-only queries changed the state
}

type BaseMon struct{}

func (BaseMon) Begin(*Hand)                                                        {}
func (BaseMon) Wait(*Hand, *pokerface.GameState)                                   {}
func (BaseMon) After(*Hand, *pokerface.GameState, Op, error, *pokerface.GameState) {}
func (BaseMon) End(*Hand, *pokerface.GameState)                                    {}
func (BaseMon) Panic(h *Hand, what string)                                         { h.Rep.Inc("hands_panicked") }
func (BaseMon) Stuck(h *Hand, why string)                                          { h.Rep.Inc("hands_stuck") }
func (BaseMon) QueryChanged(h *Hand, what string)                                  { h.Rep.Inc("read_only_queries_changed_state") }

const maxHandSteps = 6000

// playHand drives one hand to completion; returns the final state (nil if it did not start)
func playHand(h *Hand, mon Monitor) {
	defer func() {
		if e := recover(); e != nil {
			st := string(debug.Stack())
			if strings.Contains(fmt.Sprint(e), "harness:") {
				panic(e)
			}
			mon.Panic(h, fmt.Sprintf("%v\n%s", e, firstLines(st, 14)))
		}
	}()
	if h.pre != nil {
		pre := h.pre
		h.pre = nil
		pre()
	}
	c := h.C
	var g pokerface.Game
	startFresh := func() (pokerface.Game, error) {
		o := c.Opts()
		var f pokerface.Game
		if c.PlainCtor {
			f = pokerface.NewGame(o)
		} else {
			f = pokerface.NewPokerFace().NewGame(o)
		}
		h.Opts = o
		if err := f.Start(); err != nil {
			return nil, err
		}
		h.Shuffled = append([]string{}, f.GetState().Meta.Deck...)
		// pin the deck: nothing has been dealt before the first ReadyForAll
		if len(c.Deck) != len(f.GetState().Meta.Deck) {
			panic("harness: deck length mismatch")
		}
		copy(f.GetState().Meta.Deck, c.Deck)
		return f, nil
	}
	var err error
	switch {
	case c.Reuse != 0 && c.Prev != nil:
		// an engine object that already held (part of) another hand
		old := playPrefix(c.Prev, c.PrevSteps)
		h.Rep.Inc("reused_game_objects")
		if c.Reuse == 1 {
			old.ApplyOptions(c.Opts())
			g = old
			if err = g.Start(); err == nil {
				h.Shuffled = append([]string{}, g.GetState().Meta.Deck...)
				copy(g.GetState().Meta.Deck, c.Deck)
			}
		} else {
			var f pokerface.Game
			if f, err = startFresh(); err == nil {
				old.LoadState(cloneGS(f.GetState()))
				g = old
			}
		}
	default:
		g, err = startFresh()
	}
	h.G = g
	if err != nil {
		mon.Stuck(h, "start-refused: "+err.Error())
		return
	}
	h.Rep.Inc("hands")
	mon.Begin(h)
	refusals := 0
	for step := 0; step < maxHandSteps; step++ {
		if h.Aborted {
			return
		}
		s := g.GetState()
		ev := s.Status.CurrentEvent
		if c.Noise && h.ReplayTrace == nil && h.R.Intn(4) == 0 || h.replayQuery() {
			// read-only queries a table or a bot may make at any time: they must not change anything
			before := snapJSON(s)
			for i := 0; i < len(s.Players); i++ {
				if p := g.Player(i); p != nil {
					// what a getter returns belongs to the caller: it is scribbled on
					for _, l := range [][]string{g.GetAvailableActions(p), g.GetAllowedActions(p)} {
						for k := range l {
							l[k] = "scribble"
						}
					}
				}
			}
			if ps := g.GetPlayers(); len(ps) > 1 {
				// an in-place filter that drops the first seat of the list
				copy(ps, ps[1:])
				ps = ps[:len(ps)-1]
				_ = ps
			}
			g.GetAlivePlayerCount()
			g.GetMovablePlayerCount()
			g.GetStateJSON()
			h.Rep.Inc("read_only_query_rounds")
			h.Trace = append(h.Trace, TraceStep{Op: Op{Name: "query", Seat: -1}, Kind: "query"})
			if after := snapJSON(g.GetState()); after != before {
				mon.QueryChanged(h, fmt.Sprintf("read-only queries (GetAvailableActions / GetAllowedActions for every seat, counters, GetStateJSON) at %s changed the state:\n before=%s\n after =%s", ev, before, after))
				if h.Aborted {
					return
				}
			}
		}
		mon.Wait(h, s)
		if h.Aborted {
			return
		}
		if ev == "GameClosed" {
			mon.End(h, s)
			h.Rep.Inc("hands_closed")
			return
		}
		var op Op
		kind := ""
		if h.ReplayTrace != nil {
			for h.replayPos < len(h.ReplayTrace) && (h.ReplayTrace[h.replayPos].Kind == "probe" || h.ReplayTrace[h.replayPos].Kind == "query") {
				h.replayPos++
			}
			if h.replayPos >= len(h.ReplayTrace) {
				return
			}
			op, kind = h.ReplayTrace[h.replayPos].Op, h.ReplayTrace[h.replayPos].Kind
			h.replayPos++
		} else {
			switch ev {
			case "ReadyRequested", "AnteRequested", "BlindsRequested", "RoundClosed":
				op = Op{Name: expectedTableOp(ev), Seat: -1}
			case "RoundStarted":
				cur := s.Status.CurrentPlayer
				if cur < 0 || cur >= len(s.Players) || len(s.Players[cur].AllowedActions) == 0 {
					mon.Stuck(h, fmt.Sprintf("no-actions: RoundStarted with current player %d offered nothing", cur))
					return
				}
				if h.scriptPos < len(h.Scripted) {
					op = h.Scripted[h.scriptPos]
					h.scriptPos++
				} else if refusals >= 3 {
					op = fallbackAction(s)
				} else {
					op = chooseAction(h.R, s, c, h.lastInc)
				}
				if c.ViaHandle && op.Seat == -1 {
					op.Seat = cur
					h.Rep.Inc("actions_through_player_handle")
				}
			default:
				mon.Stuck(h, "not-a-wait-point: "+ev)
				return
			}
			// hostile histories: now and then the state is reloaded into the same game object (a table
			// rolling back), or an operation that is not the expected one is tried first (must be refused)
			if c.Noise && h.scriptPos >= len(h.Scripted) {
				switch h.R.Intn(24) {
				case 0:
					op, kind = Op{Name: "reload", Seat: -1}, "reload"
				case 3:
					// the hand moves to another game object of the pool, one that has played part of another hand
					op, kind = Op{Name: "swap", Seat: -1, Amt: int64(h.R.Intn(48))}, "swap"
				case 1, 2:
					op, kind = noiseOp(h.R, ev, len(s.Players)), "noise"
				}
			}
		}
		if kind == "swap" {
			h.Trace = append(h.Trace, TraceStep{Op: op, Kind: kind})
			if h.spare == nil && op.Amt < 0 && h.ReplayTrace != nil {
				// replay of a twin-hands case: the pooled object played the same steps, to the end, with the
				// deck cut at -op.Amt
				sc := *c
				cut := int(-op.Amt) % len(c.Deck)
				sc.Deck = append(append([]string{}, c.Deck[cut:]...), c.Deck[:cut]...)
				sc.Noise, sc.Prev, sc.Reuse = false, nil, 0
				if k := -1 - op.Seat; k > 0 && k < c.N {
					sc.DealerIdx = (c.DealerIdx + k) % c.N
					sc.Banks = make([]int64, c.N)
					for i := 0; i < c.N; i++ {
						sc.Banks[(i+k)%c.N] = c.Banks[i]
					}
				}
				g1 := newGameFor(&sc)
				if g1.Start() == nil {
					copy(g1.GetState().Meta.Deck, sc.Deck)
					for _, t := range h.ReplayTrace {
						if t.Kind == "" {
							applyOp(g1, t.Op)
						}
					}
				}
				h.spare = g1
			}
			if h.spare == nil {
				// the pooled object: a bigger table when this hand has a previous one, else the same table with
				// the deck cut elsewhere; it stopped after op.Amt steps of its own hand
				sc := *c
				if c.Prev != nil && c.Prev.N >= c.N {
					sc = *c.Prev
				} else {
					sc.Deck = append(append([]string{}, c.Deck[11:]...), c.Deck[:11]...)
				}
				sc.Prev, sc.Reuse = nil, 0
				steps := int(op.Amt)
				if steps < 0 {
					steps = 0
				}
				h.spare = playPrefix(&sc, steps)
			}
			next := h.spare
			if ns := next.GetState(); ns != nil && len(ns.Status.Board) > len(s.Status.Board) {
				h.Rep.Inc("moves_to_an_object_that_saw_later_streets")
			}
			if err := next.LoadState(cloneGS(s)); err != nil {
				mon.Stuck(h, "reload-refused: "+err.Error())
				return
			}
			h.spare, g = g, next
			h.G = g
			h.Rep.Inc("moves_to_a_pooled_game_object")
			continue
		}
		if kind == "reload" {
			h.Trace = append(h.Trace, TraceStep{Op: op, Kind: kind})
			if h.prevDoc != nil && len(h.Trace)%2 == 0 {
				// a store that keeps time in whole seconds: the worker is first given the document of the
				// previous wait point and then the current one, both carrying the same coarse stamp ("up to
				// timestamps" - nothing may hang on them)
				x, cur := cloneGS(h.prevDoc), cloneGS(s)
				coarse := s.UpdatedAt / 1e9 * 1e9
				x.UpdatedAt, cur.UpdatedAt = coarse, coarse
				if err := g.LoadState(x); err == nil {
					if err := g.LoadState(cur); err != nil {
						mon.Stuck(h, "reload-refused: "+err.Error())
						return
					}
					h.Rep.Inc("in_place_reloads")
					h.Rep.Inc("reloads_with_coarse_timestamps")
					continue
				}
			}
			if err := g.LoadState(cloneGS(s)); err != nil {
				mon.Stuck(h, "reload-refused: "+err.Error())
				return
			}
			h.Rep.Inc("in_place_reloads")
			continue
		}
		pre := cloneGS(s)
		if c.Noise {
			h.prevDoc = cloneGS(s) // (its own copy: monitors may consume pre)
		}
		h.Trace = append(h.Trace, TraceStep{Op: op, Kind: kind})
		err := applyOp(g, op)
		if err != nil {
			h.Trace[len(h.Trace)-1].Err = err.Error()
		}
		h.Rep.Inc("operations")
		if post := g.GetState(); post.Status.Round != pre.Status.Round {
			h.lastInc = 0
		} else if d := maxWager(post) - maxWager(pre); d > 0 && pre.Status.CurrentEvent == "RoundStarted" {
			if op.Name != "call" {
				h.lastInc = d
			}
		} else if op.Name == "blinds" && err == nil {
			h.lastInc = c.BB
			if h.lastInc == 0 {
				h.lastInc = c.Dl
			}
		}
		mon.After(h, pre, op, err, g.GetState())
		if h.Aborted {
			return
		}
		if kind == "noise" {
			h.Rep.Inc("unexpected_operations_tried")
			if err == nil {
				h.Rep.Inc("unexpected_operations_accepted")
				if na, ok := mon.(interface{ UnexpectedAccepted(*Hand, Op, string) }); ok {
					na.UnexpectedAccepted(h, op, ev)
					if h.Aborted {
						return
					}
				}
			}
			continue // refused (or, on a broken tree, accepted): the loop looks at the state again
		}
		if err != nil {
			if op.Name == "bet" || op.Name == "raise" {
				refusals++
				h.Rep.Inc("refused_amounts")
				continue
			}
			mon.Stuck(h, fmt.Sprintf("expected-step-refused: %s at %s: %v", op.Name, ev, err))
			return
		}
		refusals = 0
	}
	mon.Stuck(h, "step-bound-exceeded")
}

// newGameFor: the two public ways to make a game - through the PokerFace factory (which stamps a
// fresh game id) or through the package-level constructor (no id)
func newGameFor(c *Cfg) pokerface.Game {
	if c.PlainCtor {
		return pokerface.NewGame(c.Opts())
	}
	return pokerface.NewPokerFace().NewGame(c.Opts())
}

// playPrefix plays the first steps of another hand with a fixed simple policy and returns the used game object
func playPrefix(c *Cfg, steps int) pokerface.Game {
	var g pokerface.Game
	if c.Prev != nil && c.Reuse == 1 {
		// a session: the object already served the hand(s) before this one
		g = playPrefix(c.Prev, c.PrevSteps)
		g.ApplyOptions(c.Opts())
	} else {
		g = newGameFor(c)
	}
	if g.Start() != nil {
		return g
	}
	copy(g.GetState().Meta.Deck, c.Deck)
	for i := 0; i < steps; i++ {
		s := g.GetState()
		ev := s.Status.CurrentEvent
		var op Op
		switch ev {
		case "ReadyRequested", "AnteRequested", "BlindsRequested", "RoundClosed":
			op = Op{Name: expectedTableOp(ev), Seat: -1}
		case "RoundStarted":
			if cur := s.Status.CurrentPlayer; cur < 0 || cur >= len(s.Players) || len(s.Players[cur].AllowedActions) == 0 {
				return g
			}
			op = fallbackAction(s)
		default:
			return g
		}
		if applyOp(g, op) != nil {
			return g
		}
	}
	return g
}

func firstLines(s string, n int) string {
	lines := strings.Split(s, "\n")
	if len(lines) > n {
		lines = lines[:n]
	}
	return strings.Join(lines, "\n")
}

// replay helpers: turn a trace back into a script of RoundStarted actions
func scriptFromTrace(tr []TraceStep) []Op {
	ops := []Op{}
	for _, t := range tr {
		if t.Kind != "" {
			continue
		}
		switch t.Op.Name {
		case "ready", "ante", "blinds", "next":
			continue
		}
		ops = append(ops, t.Op)
	}
	return ops
}

func aliveCount(s *pokerface.GameState) int {
	n := 0
	for _, p := range s.Players {
		if !p.Fold {
			n++
		}
	}
	return n
}

func movableCount(s *pokerface.GameState) int {
	n := 0
	for _, p := range s.Players {
		if !p.Fold && p.StackSize > 0 {
			n++
		}
	}
	return n
}

func traceKey(h *Hand) string {
	var sb strings.Builder
	b, _ := json.Marshal(h.C)
	sb.Write(b)
	for _, t := range h.Trace {
		fmt.Fprintf(&sb, "%s:%d:%d;", t.Op.Name, t.Op.Seat, t.Op.Amt)
	}
	return sb.String()
}

// noiseOp: an operation that is not the one the hand is waiting for (always through the Game-level
// methods, so that the stateless backend can be asked the same thing)
func noiseOp(r *rand.Rand, ev string, seats int) Op {
	var cands []Op
	// a late or duplicated per-seat "pay" message, addressed through the seat's Player handle
	if ev != "AnteRequested" {
		cands = append(cands, Op{Name: "payante", Seat: r.Intn(seats)})
	}
	if ev != "BlindsRequested" {
		cands = append(cands, Op{Name: "payblinds", Seat: r.Intn(seats)})
	}
	for _, t := range []struct{ ev, op string }{{"ReadyRequested", "ready"}, {"AnteRequested", "ante"}, {"BlindsRequested", "blinds"}, {"RoundClosed", "next"}} {
		if ev != t.ev {
			cands = append(cands, Op{Name: t.op, Seat: -1})
		}
	}
	if ev != "RoundStarted" {
		for _, a := range []string{"pass", "fold", "check", "call", "allin", "bet", "raise"} {
			cands = append(cands, Op{Name: a, Seat: -1, Amt: 10 + int64(r.Intn(90))})
		}
	}
	return cands[r.Intn(len(cands))]
}

// replayQuery: in replay mode, is the next recorded step a round of read-only queries?
func (h *Hand) replayQuery() bool {
	if h.ReplayTrace == nil || h.replayPos >= len(h.ReplayTrace) || h.ReplayTrace[h.replayPos].Kind != "query" {
		return false
	}
	h.replayPos++
	return true
}
