package main

import (
	"encoding/json"
	"fmt"
	"math/rand"
	"sort"
	"sync"

	"github.com/weedbox/pokerface"
	"github.com/weedbox/pokerface/combination"
)

// C03 — exhaustive: every five-card hand of the deck, grouped by reference class; every class has
// one score; classes sorted by reference key have strictly increasing scores (equivalent to the
// pairwise statement); reported category = reference category.

var c03TailMu sync.Mutex

type c03class struct {
	key    RefKey
	scores map[uint64]int
	sample []string
}

func c03Sweep(ctx *RunCtx, rep *Report, short bool, pr combination.PowerRankings, table string, permute bool, allOrders bool) {
	shortTable := table == "shortdeck"
	// a game restored from JSON carries its own copy of the ranking table: same content, other memory
	var prCopy combination.PowerRankings
	if b, err := json.Marshal(pr); err == nil {
		json.Unmarshal(b, &prCopy)
	}
	if len(prCopy) != len(pr) {
		prCopy = append(combination.PowerRankings{}, pr...)
	}
	deck := baseDeck(short)
	n := len(deck)
	type res struct {
		classes map[RefKey]*c03class
		hands   int64
		skipped int64
	}
	var mu sync.Mutex
	merged := map[RefKey]*c03class{}
	var wg sync.WaitGroup
	work := make(chan int, n)
	var totalHands, skipped, evals int64
	deckName := map[bool]string{false: "52", true: "36"}[short]
	cause := "deck=" + deckName + ",table=" + table
	for w := 0; w < ctx.Workers; w++ {
		wg.Add(1)
		go func(w int) {
			defer wg.Done()
			local := map[RefKey]*c03class{}
			lrep := NewReport()
			var lh, ls, le int64
			r := rand.New(rand.NewSource(ctx.Seed*7919 + int64(w)))
			h := make([]string, 5)
			p := make([]string, 5)
			// memory and objects with a past: a table slice that held the other variant's table (and was
			// used) before this variant's table was written over it in place - what encoding/json does when a
			// document is decoded into a re-used value - and a game object that evaluated the same cards under
			// the other variant before this variant's state was loaded into it
			other := combination.PowerRankings(combination.CombinationPowerStandard)
			if !shortTable {
				other = combination.PowerRankings(combination.CombinationPowerShortDeck)
			}
			reused := append(combination.PowerRankings{}, other...)
			combination.CalculatePower(reused, []string{"S6", "S8", "S9", "SJ", "SK"})
			combination.CalculatePower(reused, []string{"S6", "H6", "D6", "S9", "H9"})
			copy(reused, pr)
			var gobj interface {
				LoadState(*pokerface.GameState) error
				CalculateCombinationPower([]string) *combination.PowerState
			}
			var stThis, stOther *pokerface.GameState
			if permute {
				mk := func(tbl combination.PowerRankings) *pokerface.GameState {
					c := &Cfg{N: 2, Banks: []int64{100, 100}, SB: 5, BB: 10, Limit: "no", Hole: 2, Short: short}
					o := c.Opts()
					o.CombinationPowers = append(combination.PowerRankings{}, tbl...)
					// the package-level constructor: the states carry no game id, so nothing tells the object
					// that the state loaded next belongs to another game
					g := pokerface.NewGame(o)
					g.Start()
					return cloneGS(g.GetState())
				}
				stThis, stOther = mk(pr), mk(other)
				gobj = pokerface.NewGameFromState(cloneGS(stOther))
			}
			for a := range work {
				for b := a + 1; b < n; b++ {
					for c := b + 1; c < n; c++ {
						for d := c + 1; d < n; d++ {
							for e := d + 1; e < n; e++ {
								h[0], h[1], h[2], h[3], h[4] = deck[a], deck[b], deck[c], deck[d], deck[e]
								k, rh := refKey(h, short, shortTable)
								if rh.Unspecified {
									ls++
									continue
								}
								lh++
								cl := local[k]
								if cl == nil {
									cl = &c03class{key: k, scores: map[uint64]int{}, sample: append([]string{}, h...)}
									local[k] = cl
								}
								orders := 1
								if permute {
									orders = 3
									// the game-object presentation for every flush and full house (the categories whose
									// place differs between the shipped tables) and a sample of the rest
									if rh.Cat == catFlush || rh.Cat == catFullHouse || (b+c+d+e)%61 == 0 {
										orders = 4
									}
								}
								for o := 0; o < orders; o++ {
									copy(p, h)
									tbl := pr
									if o == 1 {
										r.Shuffle(5, func(i, j int) { p[i], p[j] = p[j], p[i] })
										tbl = prCopy
									}
									if o == 2 {
										tbl = reused
										lrep.Inc("evaluations_with_rewritten_table_memory")
									}
									var ps *combination.PowerState
									if o == 3 {
										gobj.LoadState(stOther)
										gobj.CalculateCombinationPower(p)
										gobj.LoadState(stThis)
										ps = gobj.CalculateCombinationPower(p)
										lrep.Inc("evaluations_by_reloaded_game_object")
									} else {
										ps = combination.CalculatePower(tbl, p)
									}
									le++
									cl.scores[ps.Score]++
									if ps.Combination != catToCombination[rh.Cat] {
										lrep.Violate(&Violation{Prop: "C03", Rule: "C03/category", Cause: cause + ",is=" + catName[rh.Cat], Msg: fmt.Sprintf("%v is a %s, evaluator says %s", p, catName[rh.Cat], combination.CombinationSymbol[ps.Combination]), Kind: "eval", Case: map[string]interface{}{"cards": append([]string{}, p...), "short": short, "table": table}})
									}
								}
							}
						}
					}
				}
			}
			mu.Lock()
			for k, cl := range local {
				m := merged[k]
				if m == nil {
					merged[k] = cl
					continue
				}
				for s, c := range cl.scores {
					m.scores[s] += c
				}
			}
			totalHands += lh
			skipped += ls
			evals += le
			mu.Unlock()
			rep.Merge(lrep)
		}(w)
	}
	for a := 0; a < n; a++ {
		work <- a
	}
	close(work)
	wg.Wait()

	c03TailMu.Lock() // two sweeps run at the same time; the report is shared
	defer c03TailMu.Unlock()
	rep.mu.Lock()
	defer rep.mu.Unlock()
	keys := make([]RefKey, 0, len(merged))
	for k := range merged {
		keys = append(keys, k)
	}
	sort.Slice(keys, func(i, j int) bool { return keys[i].Less(keys[j]) })
	var prev uint64
	for i, k := range keys {
		cl := merged[k]
		if len(cl.scores) > 1 {
			rep.Violate(&Violation{Prop: "C03", Rule: "C03/tie-not-equal", Cause: cause + ",cat=" + fmt.Sprint(k.Idx), Msg: fmt.Sprintf("hands that tie (class of %v) get %d different scores: %v", cl.sample, len(cl.scores), cl.scores), Kind: "eval", Case: map[string]interface{}{"cards": cl.sample, "short": short, "table": table}})
		}
		var s uint64
		for sc := range cl.scores {
			if sc > s {
				s = sc
			}
		}
		if i > 0 && s <= prev {
			rep.Violate(&Violation{Prop: "C03", Rule: "C03/order", Cause: cause + ",cat=" + fmt.Sprint(k.Idx), Msg: fmt.Sprintf("%v (score %d) beats %v (score %d) under the rules but does not score higher", cl.sample, s, merged[keys[i-1]].sample, prev), Kind: "eval", Case: map[string]interface{}{"cards": cl.sample, "other": merged[keys[i-1]].sample, "short": short, "table": table}})
		}
		prev = s
		if allOrders {
			// every one of the 120 presentations of one hand per class
			perm := []int{0, 1, 2, 3, 4}
			var rec func(k int)
			p := make([]string, 5)
			rec = func(kk int) {
				if kk == 5 {
					for i, j := range perm {
						p[i] = cl.sample[j]
					}
					ps := combination.CalculatePower(pr, p)
					evals++
					if ps.Score != s {
						rep.Violate(&Violation{Prop: "C03", Rule: "C03/order-sensitive", Cause: cause, Msg: fmt.Sprintf("%v scores %d, in another card order %d", p, ps.Score, s), Kind: "eval", Case: map[string]interface{}{"cards": append([]string{}, p...), "short": short, "table": table}})
					}
					return
				}
				for i := kk; i < 5; i++ {
					perm[kk], perm[i] = perm[i], perm[kk]
					rec(kk + 1)
					perm[kk], perm[i] = perm[i], perm[kk]
				}
			}
			rec(0)
		}
	}
	rep.Add("hands_"+deckName+"_"+table, totalHands)
	rep.Add("classes_"+deckName+"_"+table, int64(len(keys)))
	rep.Add("hands", totalHands)
	rep.Add("evaluator_calls", evals)
	rep.Add("skipped_short_deck_A6789", skipped)
	rep.Add("sweeps", 1)
	for _, k := range keys {
		rep.Seen("nontrivial", fmt.Sprint(deckName, table, k))
	}
	if len(rep.Samples) < 4 && len(keys) > 0 {
		mid := merged[keys[len(keys)/2]]
		rep.Samples = append(rep.Samples, map[string]interface{}{"deck": deckName, "table": table, "class_sample": mid.sample, "scores": mid.scores, "classes": len(keys), "hands": totalHands})
	}
}

func checkC03(ctx *RunCtx) int {
	rep := NewReport()
	// the two shipped tables, obtained the way games obtain them: through the options constructors, in
	// a process that sets up both variants repeatedly (a table that is damaged by building the other
	// variant's options shows up as a wrong category order in the sweeps)
	var std, sd combination.PowerRankings
	c03Warmup(rep)
	for i := 0; i < 3; i++ {
		std = pokerface.NewStardardGameOptions().CombinationPowers
		sd = pokerface.NewShortDeckGameOptions().CombinationPowers
	}
	std = pokerface.NewStardardGameOptions().CombinationPowers
	if fmt.Sprint(std) != fmt.Sprint(combination.PowerRankings(combination.CombinationPowerStandard)) || fmt.Sprint(sd) != fmt.Sprint(combination.PowerRankings(combination.CombinationPowerShortDeck)) {
		rep.Inc("tables_from_constructors_differ_from_package_tables")
	}
	th := ctx.Thorough()
	// both decks x both shipped ranking tables; the two variants are evaluated at the same time on
	// different goroutines, as a process that serves both kinds of table does
	half := *ctx
	half.Workers = (ctx.Workers + 1) / 2
	pair := func(a, b func(c *RunCtx)) {
		var wg sync.WaitGroup
		wg.Add(2)
		go func() { defer wg.Done(); a(&half) }()
		go func() { defer wg.Done(); b(&half) }()
		wg.Wait()
	}
	pair(func(c *RunCtx) { c03Sweep(c, rep, false, std, "standard", true, th) },
		func(c *RunCtx) { c03Sweep(c, rep, true, sd, "shortdeck", true, th) })
	pair(func(c *RunCtx) { c03Sweep(c, rep, true, std, "standard", th, false) },
		func(c *RunCtx) { c03Sweep(c, rep, false, sd, "shortdeck", th, false) })
	return finish(ctx, rep, &CheckSpec{
		Prop: "C03", Level: "exploration", EvalCounter: "hands", NonTrivSet: "nontrivial", Exhaustive: true,
		Rule:        "all 2,598,960 five-card hands of the 52-card deck and all 376,992 of the 36-card deck (minus the 1,020 short-deck A-6-7-8-9 hands the property leaves open, counted as skipped), under both shipped ranking tables, each hand presented in deck order and in a PRNG-chosen permutation (thorough: all 120 orders of one hand per class); hands are grouped by an independent reference key (category index in the given table, tiebreak vector): every class must have one score, classes sorted by reference key must have strictly increasing scores, reported category must equal the reference category. Non-trivial = distinct (deck, table, tie class)",
		Required:    []string{"hands_52_standard", "hands_36_shortdeck", "hands_36_standard", "hands_52_shortdeck"},
		Assumptions: []string{"strictly increasing class scores over a total reference order is equivalent to the pairwise statement (higher score iff wins, equal iff tie)"},
	})
}

// c03Warmup uses the library the way a process serving both variants does before the tables are
// examined: games of both variants are created, started, rebuilt from JSON, and states are loaded
// into existing game objects - also across variants (a table rolling back to a snapshot). None of
// this may change what the shipped ranking tables say.
func c03Warmup(rep *Report) {
	defer func() {
		if e := recover(); e != nil {
			rep.Inc("warmup_panics")
		}
	}()
	mk := func(short bool) pokerface.Game {
		c := &Cfg{N: 3, Banks: []int64{100, 100, 100}, SB: 5, BB: 10, Limit: "no", Hole: 2, Short: short}
		g := pokerface.NewPokerFace().NewGame(c.Opts())
		g.Start()
		return g
	}
	for i := 0; i < 3; i++ {
		gStd, gSD := mk(false), mk(true)
		stStd, stSD := cloneGS(gStd.GetState()), cloneGS(gSD.GetState())
		if i%2 == 0 {
			gStd.LoadState(cloneGS(stSD)) // a standard game object is re-used for a short-deck snapshot
		} else {
			gSD.LoadState(cloneGS(stStd)) // and the other way round
		}
		pokerface.NewPokerFace().NewGameFromState(cloneGS(stStd))
		pokerface.NewPokerFace().NewGameFromState(cloneGS(stSD))
		for _, g := range []pokerface.Game{gStd, gSD} {
			g.ReadyForAll()
			g.PayBlinds()
			g.ReadyForAll()
		}
		rep.Inc("warmup_rounds")
	}
}
