package main

import (
	"encoding/json"
	"fmt"
	"hash/fnv"
	"math/rand"
	"os"
	"path/filepath"
	"regexp"
	"runtime"
	"runtime/debug"
	"sort"
	"strings"
	"sync"
	"time"
)

// ---------------------------------------------------------------------------------------------
// Run context: what a check was asked to do

type RunCtx struct {
	Prop        string
	Tier        string // quick | thorough
	Seed        int64
	Workers     int
	VerifDir    string // /verif
	EvidenceDir string
	ReplayDir   string
	Start       time.Time
}

func (c *RunCtx) Thorough() bool { return c.Tier == "thorough" }

// pick n by tier
func (c *RunCtx) N(quick, thorough int) int {
	if c.Thorough() {
		return thorough
	}
	return quick
}

// ---------------------------------------------------------------------------------------------
// Violations

type Violation struct {
	Prop      string      `json:"property"`
	Rule      string      `json:"rule"`      // monitor rule id, e.g. C01/identity
	Cause     string      `json:"cause"`     // normalised cause key, part of the signature
	Signature string      `json:"signature"` // Rule + "|" + Cause
	Msg       string      `json:"message"`   // observed vs expected
	Kind      string      `json:"kind"`      // hand | potvec | seats | world | conc | eval | start | shuffle
	Case      interface{} `json:"case"`      // replayable input
	Seed      int64       `json:"seed"`
	CaseIndex int         `json:"case_index"`
}

// ---------------------------------------------------------------------------------------------
// Report: coverage counters + violations, merged from per-worker locals

type Report struct {
	mu        sync.Mutex
	Counters  map[string]int64
	Distinct  map[string]map[uint64]struct{} // named sets of hashes
	Viol      map[string][]*Violation        // by signature (first few kept)
	ViolCount map[string]int64
	Samples   []interface{}
	MaxVals   map[string]int64
	Hist      map[string]map[int64]int64
}

func NewReport() *Report {
	return &Report{
		Counters:  map[string]int64{},
		Distinct:  map[string]map[uint64]struct{}{},
		Viol:      map[string][]*Violation{},
		ViolCount: map[string]int64{},
		MaxVals:   map[string]int64{},
		Hist:      map[string]map[int64]int64{},
	}
}

func (r *Report) Inc(k string)          { r.Counters[k]++ }
func (r *Report) Add(k string, n int64) { r.Counters[k] += n }
func (r *Report) Max(k string, v int64) {
	if v > r.MaxVals[k] {
		r.MaxVals[k] = v
	}
}
func (r *Report) HistAdd(k string, v int64) {
	m := r.Hist[k]
	if m == nil {
		m = map[int64]int64{}
		r.Hist[k] = m
	}
	m[v]++
}

const distinctCap = 4_000_000

func hash64(s string) uint64 {
	h := fnv.New64a()
	h.Write([]byte(s))
	return h.Sum64()
}

// Seen adds key to the named distinct set; returns true when new
func (r *Report) Seen(set string, key string) bool {
	m := r.Distinct[set]
	if m == nil {
		m = map[uint64]struct{}{}
		r.Distinct[set] = m
	}
	h := hash64(key)
	if _, ok := m[h]; ok {
		return false
	}
	if len(m) >= distinctCap {
		return false
	}
	m[h] = struct{}{}
	return true
}

func (r *Report) Sample(s interface{}, max int) {
	if len(r.Samples) < max {
		r.Samples = append(r.Samples, s)
	}
}

func (r *Report) Violate(v *Violation) {
	v.Signature = v.Rule + "|" + v.Cause
	r.ViolCount[v.Signature]++
	if len(r.Viol[v.Signature]) < 2 {
		r.Viol[v.Signature] = append(r.Viol[v.Signature], v)
	}
}

func (r *Report) Merge(o *Report) {
	r.mu.Lock()
	defer r.mu.Unlock()
	for k, v := range o.Counters {
		r.Counters[k] += v
	}
	for k, v := range o.MaxVals {
		if v > r.MaxVals[k] {
			r.MaxVals[k] = v
		}
	}
	for k, m := range o.Hist {
		for a, b := range m {
			if r.Hist[k] == nil {
				r.Hist[k] = map[int64]int64{}
			}
			r.Hist[k][a] += b
		}
	}
	for k, m := range o.Distinct {
		d := r.Distinct[k]
		if d == nil {
			d = map[uint64]struct{}{}
			r.Distinct[k] = d
		}
		for h := range m {
			if len(d) >= distinctCap {
				break
			}
			d[h] = struct{}{}
		}
	}
	for k, vs := range o.Viol {
		for _, v := range vs {
			if len(r.Viol[k]) < 2 {
				r.Viol[k] = append(r.Viol[k], v)
			}
		}
	}
	for k, n := range o.ViolCount {
		r.ViolCount[k] += n
	}
	for _, s := range o.Samples {
		if len(r.Samples) < 6 {
			r.Samples = append(r.Samples, s)
		}
	}
}

func (r *Report) DistinctCount(set string) int { return len(r.Distinct[set]) }

// ---------------------------------------------------------------------------------------------
// Parallel case runner: case i gets its own PRNG derived from (seed, stream, i); a fixed case list,
// never a time budget.

func caseRand(seed int64, stream int64, i int) *rand.Rand {
	x := uint64(seed)*0x9E3779B97F4A7C15 + uint64(stream)*0xBF58476D1CE4E5B9 + uint64(i)*0x94D049BB133111EB
	x ^= x >> 31
	x *= 0xD6E8FEB86659FD93
	x ^= x >> 32
	return rand.New(rand.NewSource(int64(x & 0x7fffffffffffffff)))
}

func runCases(ctx *RunCtx, total *Report, stream int64, n int, fn func(i int, r *rand.Rand, rep *Report)) {
	workers := ctx.Workers
	if workers < 1 {
		workers = 1
	}
	var wg sync.WaitGroup
	next := make(chan int, 1024)
	for w := 0; w < workers; w++ {
		wg.Add(1)
		go func() {
			defer wg.Done()
			local := NewReport()
			cnt := 0
			for i := range next {
				func() {
					// a panic that escapes a case comes from /repo code called by a monitor outside its own
					// recover(): record it as an observation instead of losing the whole run
					defer func() {
						if e := recover(); e != nil {
							st := string(debug.Stack())
							local.Violate(&Violation{Prop: ctx.Prop, Rule: ctx.Prop + "/panic", Cause: "in=" + repoFrame(st), Msg: fmt.Sprintf("panic: %v\n%s", e, firstLines(st, 24)), Kind: "panic", Seed: ctx.Seed, CaseIndex: i})
						}
					}()
					fn(i, caseRand(ctx.Seed, stream, i), local)
				}()
				cnt++
				if cnt%20000 == 0 {
					total.Merge(local)
					local = NewReport()
				}
			}
			total.Merge(local)
		}()
	}
	for i := 0; i < n; i++ {
		next <- i
	}
	close(next)
	wg.Wait()
}

// ---------------------------------------------------------------------------------------------
// Known findings

type KnownFinding struct {
	Property  string `json:"property"`
	Signature string `json:"signature"` // exact signature, or prefix ending with '*'
	Status    string `json:"status"`    // open | fixed
	Commit    string `json:"commit,omitempty"`
	What      string `json:"what"`
}

type KnownFindings struct {
	Findings []KnownFinding `json:"findings"`
}

func loadKnown(dir string) *KnownFindings {
	kf := &KnownFindings{}
	b, err := os.ReadFile(filepath.Join(dir, "known_findings.json"))
	if err != nil {
		return kf
	}
	if err := json.Unmarshal(b, kf); err != nil {
		fmt.Fprintln(os.Stderr, "known_findings.json unreadable:", err)
	}
	return kf
}

func (kf *KnownFindings) matchOpen(prop, sig string) *KnownFinding {
	for i := range kf.Findings {
		f := &kf.Findings[i]
		if f.Status != "open" || f.Property != prop {
			continue
		}
		if f.Signature == sig {
			return f
		}
		if strings.HasSuffix(f.Signature, "*") && strings.HasPrefix(sig, strings.TrimSuffix(f.Signature, "*")) {
			return f
		}
	}
	return nil
}

// ---------------------------------------------------------------------------------------------
// Evidence + verdict

type CheckSpec struct {
	Prop        string
	Level       string   // exploration | fault_enumeration
	Rule        string   // how cases are generated and what makes one non-trivial
	NonTrivSet  string   // name of the distinct set that counts non-trivial cases
	EvalCounter string   // counter that holds #evaluations
	Required    []string // counters that must be > 0, else inconclusive
	Assumptions []string
	Exhaustive  bool
	Extra       map[string]interface{}
}

var commonAssumptions = []string{
	"held-on-observed: the verdict covers exactly the executions counted here, produced by the real code in /repo built from its current working tree with -tags verif",
	"reference models (chip ledger, turn order, raise shadow, hand evaluator, nested pots, seat map, tournament world) are the specification as far as the oracle is concerned; they are written independently of /repo",
}

func finish(ctx *RunCtx, rep *Report, spec *CheckSpec) int {
	wall := time.Since(ctx.Start).Seconds()
	kf := loadKnown(ctx.VerifDir)

	sigs := make([]string, 0, len(rep.Viol))
	for s := range rep.Viol {
		sigs = append(sigs, s)
	}
	sort.Strings(sigs)

	newViol := 0
	knownHits := map[string]int64{}
	os.MkdirAll(ctx.ReplayDir, 0o755)
	nfile := 0
	for _, s := range sigs {
		if f := kf.matchOpen(spec.Prop, s); f != nil {
			knownHits[f.Signature+" :: "+f.What] += rep.ViolCount[s]
			continue
		}
		newViol++
		v := rep.Viol[s][0]
		nfile++
		path := filepath.Join(ctx.ReplayDir, fmt.Sprintf("%s-%d-%d.json", spec.Prop, ctx.Seed, nfile))
		out := map[string]interface{}{
			"violation":   v,
			"occurrences": rep.ViolCount[s],
			"tier":        ctx.Tier,
		}
		b, _ := json.MarshalIndent(out, "", " ")
		os.WriteFile(path, b, 0o644)
		if nfile <= 40 {
			fmt.Printf("VIOLATION property=%s replay=%s\n", spec.Prop, path)
			fmt.Printf("  signature=%s occurrences=%d\n  %s\n", s, rep.ViolCount[s], v.Msg)
		}
	}
	kk := make([]string, 0, len(knownHits))
	for k := range knownHits {
		kk = append(kk, k)
	}
	sort.Strings(kk)
	for _, k := range kk {
		fmt.Printf("KNOWN-FINDING: property=%s %s (seen %d times in this run)\n", spec.Prop, k, knownHits[k])
	}

	missing := []string{}
	for _, c := range spec.Required {
		if rep.Counters[c] == 0 {
			missing = append(missing, c)
		}
	}

	// evidence
	counters := map[string]int64{}
	for k, v := range rep.Counters {
		counters[k] = v
	}
	distinct := map[string]int{}
	for k, m := range rep.Distinct {
		distinct[k] = len(m)
	}
	cov := map[string]interface{}{
		"evaluations":         rep.Counters[spec.EvalCounter],
		"distinct_nontrivial": rep.DistinctCount(spec.NonTrivSet),
		"rule":                spec.Rule,
		"samples":             rep.Samples,
		"counters":            counters,
		"distinct_sets":       distinct,
		"required_classes":    spec.Required,
		"required_missing":    missing,
	}
	if len(rep.MaxVals) > 0 {
		cov["max"] = rep.MaxVals
	}
	if len(rep.Hist) > 0 {
		h := map[string]map[string]int64{}
		for k, m := range rep.Hist {
			h[k] = map[string]int64{}
			for a, b := range m {
				h[k][fmt.Sprint(a)] = b
			}
		}
		cov["histograms"] = h
	}
	if spec.Exhaustive {
		cov["exhaustive"] = true
	}
	for k, v := range spec.Extra {
		cov[k] = v
	}
	verdict := "held"
	if newViol > 0 {
		verdict = "violated"
	} else if len(missing) > 0 {
		verdict = "inconclusive"
	}
	cov["verdict"] = verdict
	if len(knownHits) > 0 {
		cov["known_findings_seen"] = knownHits
	}
	if len(sigs) > 0 {
		vs := map[string]int64{}
		for _, s := range sigs {
			vs[s] = rep.ViolCount[s]
		}
		cov["violation_signatures"] = vs
	}
	ev := map[string]interface{}{
		"property_id": spec.Prop,
		"tier":        ctx.Tier,
		"seed":        ctx.Seed,
		"level":       spec.Level,
		"coverage":    cov,
		"assumptions": append(append([]string{}, commonAssumptions...), spec.Assumptions...),
		"wall_s":      wall,
		"violations":  newViol,
	}
	os.MkdirAll(ctx.EvidenceDir, 0o755)
	b, _ := json.MarshalIndent(ev, "", " ")
	if err := os.WriteFile(filepath.Join(ctx.EvidenceDir, spec.Prop+".json"), b, 0o644); err != nil {
		fmt.Fprintln(os.Stderr, "cannot write evidence:", err)
		return 2
	}

	fmt.Printf("%s tier=%s seed=%d verdict=%s evaluations=%d distinct_nontrivial=%d wall=%.1fs\n",
		spec.Prop, ctx.Tier, ctx.Seed, verdict, rep.Counters[spec.EvalCounter], rep.DistinctCount(spec.NonTrivSet), wall)
	// compact counter line so that logs show what was observed
	keys := make([]string, 0, len(counters))
	for k := range counters {
		keys = append(keys, k)
	}
	sort.Strings(keys)
	var sb strings.Builder
	for _, k := range keys {
		fmt.Fprintf(&sb, " %s=%d", k, counters[k])
	}
	fmt.Println("  observed:" + sb.String())
	switch verdict {
	case "violated":
		return 1
	case "inconclusive":
		fmt.Printf("INCONCLUSIVE property=%s required situation classes never observed: %v\n", spec.Prop, missing)
		return 2
	}
	return 0
}

func defaultWorkers() int {
	n := runtime.NumCPU()
	if n > 16 {
		n = 16
	}
	return n
}

// small helpers

func hasStr(xs []string, s string) bool {
	for _, x := range xs {
		if x == s {
			return true
		}
	}
	return false
}

func minI64(a, b int64) int64 {
	if a < b {
		return a
	}
	return b
}

func maxI64(a, b int64) int64 {
	if a > b {
		return a
	}
	return b
}

var repoFrameRe = regexp.MustCompile(`github\.com/weedbox/pokerface[^\s(]*`)

// first /repo function on a stack trace
func repoFrame(stack string) string {
	if m := repoFrameRe.FindString(stack); m != "" {
		return m
	}
	return "harness"
}
