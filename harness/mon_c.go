package main

import (
	"fmt"
	"strings"

	"github.com/weedbox/pokerface"
)

func sgn(x int64) int {
	switch {
	case x < 0:
		return -1
	case x > 0:
		return 1
	}
	return 0
}

// =============================================================================================
// C11 — offered actions fit the situation and do what they say

type C11Mon struct{ BaseMon }

// a seat that is to act but is offered nothing at all is not "always offered all-in"
func (m *C11Mon) Stuck(h *Hand, why string) {
	if strings.HasPrefix(why, "no-actions") {
		h.Fail("C11/nothing-offered", opCause(h.lastOp()), why)
		return
	}
	// an action that was on offer to the seat to act (the driver only takes those; refused amounts of bet
	// and raise are handled separately) and is refused does not "do what it says"
	if strings.HasPrefix(why, "expected-step-refused") {
		if op := h.lastOp(); op.Name != "ready" && op.Name != "ante" && op.Name != "blinds" && op.Name != "next" {
			h.Fail("C11/offered-action-refused", "op="+op.Name, why)
			return
		}
	}
	h.Rep.Inc("hands_stuck")
}

func (m *C11Mon) Wait(h *Hand, s *pokerface.GameState) {
	if s.Status.CurrentEvent != "RoundStarted" {
		return
	}
	cur := s.Status.CurrentPlayer
	if cur < 0 || cur >= len(s.Players) {
		return
	}
	cp := s.Players[cur]
	aa := cp.AllowedActions
	cw, prs, mini := s.Status.CurrentWager, s.Status.PreviousRaiseSize, s.Status.MiniBet
	I := cp.InitialStackSize
	h.Rep.Inc("oracle_evaluations")
	h.Rep.Inc("offers_checked")
	if cp.Fold || cp.StackSize == 0 {
		h.Rep.Inc("class_pass_only")
		if len(aa) != 1 || aa[0] != "pass" {
			h.Fail("C11/pass-only", "situation=inactive", fmt.Sprintf("folded/all-in seat %d offered %v", cur, aa))
		}
		return
	}
	if mw := maxWager(s); cw != mw {
		h.Fail("C11/wager-to-match-not-largest-wager", "at=offer", fmt.Sprintf("wager to match is %d but the largest wager on the table is %d", cw, mw))
		return
	}
	facing := cp.Wager < cw
	sit := fmt.Sprintf("facing=%v,I-cw=%d,I-cw-prs=%d,I-mini=%d,cw0=%v", facing, sgn(I-cw), sgn(I-cw-prs), sgn(I-mini), cw == 0)
	if h.Rep.Seen("situations", sit) {
		h.Rep.Inc("distinct_situations")
	}
	h.Rep.Seen("nontrivial", sit+fmt.Sprint(aa))
	chk := func(name string, must, mustnot bool) bool {
		has := hasStr(aa, name)
		if must && !has {
			h.Fail("C11/missing-"+name, "facing="+fmt.Sprint(facing), fmt.Sprintf("seat %d not offered %s: offered=%v wager-to-match=%d min-raise=%d min-bet=%d holds=%d wager=%d", cur, name, aa, cw, prs, mini, I, cp.Wager))
			return false
		}
		if mustnot && has {
			h.Fail("C11/extra-"+name, "facing="+fmt.Sprint(facing), fmt.Sprintf("seat %d offered %s: offered=%v wager-to-match=%d min-raise=%d min-bet=%d holds=%d wager=%d", cur, name, aa, cw, prs, mini, I, cp.Wager))
			return false
		}
		return true
	}
	_ = chk("pass", false, true) &&
		chk("allin", true, false) &&
		chk("fold", facing, !facing) &&
		chk("check", !facing, facing) &&
		chk("call", facing && I > cw, !(facing && I > cw)) &&
		chk("bet", cw == 0 && I >= mini, cw != 0) &&
		chk("raise", cw > 0 && I > cw+prs && I >= mini, cw == 0)
	for _, a := range aa {
		switch a {
		case "pass", "allin", "fold", "check", "call", "bet", "raise":
		default:
			h.Fail("C11/unknown-action", "action="+a, fmt.Sprintf("seat %d offered %v", cur, aa))
			return
		}
	}
}

func (m *C11Mon) After(h *Hand, pre *pokerface.GameState, op Op, err error, post *pokerface.GameState) {
	if pre.Status.CurrentEvent != "RoundStarted" || err != nil {
		return
	}
	i := pre.Status.CurrentPlayer
	a, b := pre.Players[i], post.Players[i]
	cw0, cw1 := pre.Status.CurrentWager, post.Status.CurrentWager
	cause := "action=" + op.Name
	h.Rep.Inc("oracle_evaluations")
	h.Rep.Inc("effect_" + op.Name)
	// chips of the other seats are untouched by an action (the end-of-hand state keeps them too)
	for j := range pre.Players {
		if j == i {
			continue
		}
		x, y := pre.Players[j], post.Players[j]
		if x.Wager != y.Wager || x.StackSize != y.StackSize || x.Pot != y.Pot || x.Fold != y.Fold {
			h.Fail("C11/others-changed", cause, fmt.Sprintf("%s by seat %d changed seat %d: wager %d->%d stack %d->%d pot %d->%d", op.Name, i, j, x.Wager, y.Wager, x.StackSize, y.StackSize, x.Pot, y.Pot))
			return
		}
	}
	moved := a.StackSize - b.StackSize
	if b.Wager-a.Wager != moved || a.Pot != b.Pot {
		h.Fail("C11/chips-moved-inconsistently", cause, fmt.Sprintf("seat %d stack %d->%d wager %d->%d pot %d->%d", i, a.StackSize, b.StackSize, a.Wager, b.Wager, a.Pot, b.Pot))
		return
	}
	switch op.Name {
	case "pass", "check", "fold":
		if moved != 0 || cw1 != cw0 {
			h.Fail("C11/"+op.Name+"-moved-chips", cause, fmt.Sprintf("seat %d moved %d, wager to match %d->%d", i, moved, cw0, cw1))
			return
		}
		if op.Name == "fold" && !b.Fold {
			h.Fail("C11/fold-not-folded", cause, "")
			return
		}
	case "call":
		target := maxI64(cw0, h.C.BB) // the engine completes a call to one big blind (documented reading)
		if cw0 < h.C.BB {
			h.Rep.Inc("calls_completed_to_bb")
		}
		target = minI64(target, a.InitialStackSize)
		if b.Wager != target {
			h.Fail("C11/call-amount", cause, fmt.Sprintf("seat %d called to %d, expected %d (wager to match %d, bb %d, holds %d)", i, b.Wager, target, cw0, h.C.BB, a.InitialStackSize))
			return
		}
		if mw := maxWager(post); b.StackSize > 0 && (b.Wager != cw1 || b.Wager != mw) {
			h.Fail("C11/call-not-level", cause, fmt.Sprintf("seat %d has wager %d after calling, wager to match %d, largest wager on the table %d", i, b.Wager, cw1, mw))
			return
		}
	case "allin":
		if b.StackSize != 0 || moved != a.StackSize {
			h.Fail("C11/allin", cause, fmt.Sprintf("seat %d had %d behind, moved %d, left %d", i, a.StackSize, moved, b.StackSize))
			return
		}
	case "bet":
		if op.Amt > 0 && op.Amt < a.StackSize {
			h.Rep.Inc("bets_below_stack")
			if b.Wager != op.Amt || cw1 != op.Amt {
				h.Fail("C11/bet", cause, fmt.Sprintf("Bet(%d) by seat %d: wager %d, wager to match %d", op.Amt, i, b.Wager, cw1))
				return
			}
		}
	}
}

// =============================================================================================
// C12 — minimum raise; amounts cannot corrupt chips

type C12Mon struct {
	BaseMon
	round  string
	shadow int64 // size of the previous bet or raise of the round
	inited bool
}

func (m *C12Mon) chips(h *Hand, s *pokerface.GameState) bool {
	cause := opCause(h.lastOp())
	for _, p := range s.Players {
		if p.StackSize < 0 || p.Wager < 0 || p.Pot < 0 {
			h.Fail("C12/negative", cause, fmt.Sprintf("seat %d stack=%d wager=%d pot=%d", p.Idx, p.StackSize, p.Wager, p.Pot))
			return false
		}
		if p.StackSize > p.Bankroll || p.StackSize > h.C.Banks[p.Idx] {
			h.Fail("C12/stack-above-bankroll", cause, fmt.Sprintf("seat %d stack=%d bankroll=%d", p.Idx, p.StackSize, h.C.Banks[p.Idx]))
			return false
		}
	}
	if s.Status.CurrentWager < 0 || s.Status.CurrentRoundPot < 0 {
		h.Fail("C12/negative", cause, fmt.Sprintf("wager to match %d round pot %d", s.Status.CurrentWager, s.Status.CurrentRoundPot))
		return false
	}
	return true
}

func (m *C12Mon) Wait(h *Hand, s *pokerface.GameState) {
	h.Rep.Inc("oracle_evaluations")
	if !m.chips(h, s) {
		return
	}
	if s.Status.Round != m.round {
		m.round = s.Status.Round
		if m.round != "preflop" {
			m.shadow = 0
		}
	}
	if m.round == "preflop" && !m.inited && s.Status.CurrentEvent != "BlindsRequested" {
		m.inited = true
		m.shadow = h.C.BB
		if m.shadow == 0 {
			m.shadow = h.C.Dl
		}
	}
}

func amountClass(x, min, stack int64) string {
	switch {
	case x < 0:
		return "negative"
	case x == 0:
		return "zero"
	case x >= 1<<40:
		return "huge"
	case x >= stack:
		return "at_or_above_stack"
	case x < min:
		return "below_minimum"
	case x == min:
		return "exact_minimum"
	}
	return "above_minimum"
}

func (m *C12Mon) After(h *Hand, pre *pokerface.GameState, op Op, err error, post *pokerface.GameState) {
	if pre.Status.CurrentEvent != "RoundStarted" {
		return
	}
	i := pre.Status.CurrentPlayer
	a, b := pre.Players[i], post.Players[i]
	cw0, cw1 := pre.Status.CurrentWager, post.Status.CurrentWager
	I := a.InitialStackSize
	nolimit := h.C.Limit == "no"
	h.Rep.Inc("oracle_evaluations")
	if post.Status.Round == pre.Status.Round && cw1 < cw0 {
		h.Fail("C12/wager-decreased", opCause(op), fmt.Sprintf("wager to match went from %d to %d on %+v", cw0, cw1, op))
		return
	}
	if !m.chips(h, post) {
		return
	}
	if err != nil {
		// a refused request leaves the state as it was
		pre.UpdatedAt, post.UpdatedAt = 0, 0
		if x, y := snapJSON(pre), snapJSON(post); x != y {
			h.Fail("C12/refused-but-changed", opCause(op), fmt.Sprintf("%+v was refused (%v) but changed the state", op, err))
			return
		}
	}
	switch op.Name {
	case "bet":
		h.Rep.Inc("bet_requests")
		h.Rep.Inc("bet_" + amountClass(op.Amt, pre.Status.MiniBet, a.StackSize))
		if err == nil {
			// the size of the bet is what was actually wagered
			m.shadow = b.Wager - a.Wager
		}
	case "allin":
		if err == nil {
			if inc := I - cw0; inc >= m.shadow {
				m.shadow = inc
			}
		}
	case "call":
		// a call that completes to the big blind lifts the wager to match; it is not a raise request
	case "raise":
		L := op.Amt
		h.Rep.Inc("raise_requests")
		cls := "other"
		switch {
		case L < 0:
			cls = "negative"
		case L == 0:
			cls = "zero"
		case L < cw0:
			cls = "below_wager"
		case L == cw0:
			cls = "equal_wager"
		case L >= 1<<40:
			cls = "huge"
		case L >= I:
			cls = "at_or_above_stack"
		case L-cw0 < m.shadow:
			cls = "below_minimum"
		case L-cw0 == m.shadow:
			cls = "exact_minimum"
		default:
			cls = "above_minimum"
		}
		h.Rep.Inc("raise_" + cls)
		h.Rep.Seen("nontrivial", fmt.Sprint(cls, cw0, m.shadow, I, L, h.C.Limit))
		if L == cw0 {
			// handed to call by the engine; not a request that lifts the wager (documented reading)
			return
		}
		if L == 0 || L < cw0 {
			if err == nil {
				h.Fail("C12/raise-below-wager-accepted", "limit="+h.C.Limit, fmt.Sprintf("Raise(%d) with wager to match %d was accepted", L, cw0))
			}
			return
		}
		inc := L - cw0
		if !nolimit {
			// pot-limit: only monotonicity and non-negativity are claimed; keep the shadow in step
			if err == nil {
				m.shadow = post.Status.PreviousRaiseSize
			}
			return
		}
		if L < I && inc >= m.shadow {
			h.Rep.Inc("exact_raises_checked")
			if err != nil {
				h.Fail("C12/legal-raise-refused", "limit=no", fmt.Sprintf("Raise(%d) refused (%v): wager to match %d, previous bet/raise %d, holds %d", L, err, cw0, m.shadow, I))
				return
			}
			if cw1 != L || b.Wager != L || post.Status.CurrentRaiser != i || post.Status.PreviousRaiseSize != inc {
				h.Fail("C12/raise-not-exact", "limit=no", fmt.Sprintf("Raise(%d) by seat %d (wager to match %d, previous bet/raise %d, holds %d): wager to match %d, wager %d, last raiser %d, new minimum %d", L, i, cw0, m.shadow, I, cw1, b.Wager, post.Status.CurrentRaiser, post.Status.PreviousRaiseSize))
				return
			}
			m.shadow = inc
			return
		}
		// undersized, or at/above the stack
		if err != nil {
			return // refused unchanged (checked above)
		}
		if b.StackSize != 0 {
			h.Fail("C12/undersized-raise", "limit=no", fmt.Sprintf("Raise(%d) by seat %d lifts %d by %d < %d and left %d behind (wager to match now %d)", L, i, cw0, inc, m.shadow, b.StackSize, cw1))
			return
		}
		h.Rep.Inc("raises_turned_allin")
		if x := I - cw0; x >= m.shadow {
			m.shadow = x
		}
	}
}

func (m *C12Mon) End(h *Hand, s *pokerface.GameState) {
	m.chips(h, s)
}

// a getter that rewrites the state (for example the offered actions of the seat to act)
func (m *C11Mon) QueryChanged(h *Hand, what string) {
	h.Fail("C11/offer-changed-by-query", "by=read-only-query", what)
}
