package main

import "sort"

// Reference nested side pots and settlement, from (contribution, folded, strength) per seat.

type RefPot struct {
	Level   int64 // upper level (total contribution reaching the top of this pot)
	Prev    int64 // lower level
	Total   int64
	Live    []int // non-folded seats with contribution >= Level
	Winners []int // best-strength seats among Live (filled by refSettle)
}

// refPots: layers between consecutive distinct contribution totals (zero excluded); adjacent
// layers with the same live set are one pot
func refPots(contrib []int64, fold []bool) []*RefPot {
	lv := append([]int64{}, contrib...)
	sort.Slice(lv, func(i, j int) bool { return lv[i] < lv[j] })
	var pots []*RefPot
	prev := int64(0)
	for _, L := range lv {
		if L <= prev {
			continue
		}
		var total int64
		live := []int{}
		for i, c := range contrib {
			x := minI64(c, L) - prev
			if x > 0 {
				total += x
			}
			if c >= L && !fold[i] {
				live = append(live, i)
			}
		}
		if n := len(pots); n > 0 && sameInts(pots[n-1].Live, live) {
			pots[n-1].Level = L
			pots[n-1].Total += total
		} else {
			start := prev
			pots = append(pots, &RefPot{Level: L, Prev: start, Total: total, Live: live})
		}
		prev = L
	}
	return pots
}

func sameInts(a, b []int) bool {
	if len(a) != len(b) {
		return false
	}
	for i := range a {
		if a[i] != b[i] {
			return false
		}
	}
	return true
}

// refSettle computes, per seat, the interval [min,max] of the gross amount collected:
// every pot is split floor(T/k) each among its k winners with the remainder spread one chip
// each (who gets an odd chip is not fixed). Pots without a live contributor are reported in
// orphan (the property does not describe them).
func refSettle(contrib []int64, fold []bool, strength func(i int) RefKey) (pots []*RefPot, gmin, gmax []int64, orphan bool) {
	n := len(contrib)
	gmin, gmax = make([]int64, n), make([]int64, n)
	pots = refPots(contrib, fold)
	for _, p := range pots {
		if len(p.Live) == 0 {
			orphan = true
			continue
		}
		best := strength(p.Live[0])
		for _, i := range p.Live[1:] {
			if k := strength(i); best.Less(k) {
				best = k
			}
		}
		for _, i := range p.Live {
			k := strength(i)
			if !k.Less(best) && !best.Less(k) {
				p.Winners = append(p.Winners, i)
			}
		}
		k := int64(len(p.Winners))
		q, rem := p.Total/k, p.Total%k
		for _, i := range p.Winners {
			gmin[i] += q
			gmax[i] += q
			if rem > 0 {
				gmax[i]++
			}
		}
	}
	return
}
