package main

import (
	"errors"
	"fmt"
	"math/rand"
	"sort"
	"strings"

	reg "github.com/weedbox/pokerface/regulator"
)

// Tournament world: real tables that follow the regulator's instructions, as the repo's own tests do.

type keptList struct {
	id   string
	list []string // the slice as delivered
	was  []string // what it said then
}

type World struct {
	keptLists     []keptList
	buf           []string // the caller's message buffer, re-used for every call that carries names
	ghosts        int
	prop          string
	props         map[string]bool
	r             reg.Regulator
	max           int
	min           int
	tables        map[string][]string
	order         []string
	where         map[string]string
	alive         map[string]bool
	nAlive        int
	nextT         int
	nextP         int
	status        int
	trace         []string
	rep           *Report
	seed          int64
	idx           int
	failed        bool
	initialAlloc  bool
	delayReleases bool
	holdReleases  bool // every release is delivered later (the scenario decides when)
	regTotal      int  // registered so far (alive or not)
	roster        []string
	pending       []pendingRelease // releases a table has been told to make but has not delivered yet
	transit       map[string]bool  // players of pending releases
	dead          []string         // ids of tables that were broken (a late report may still arrive)
	busted        []string         // eliminated players (may re-enter under the same id)
	rng           *rand.Rand
	// faulty host: a callback now and then fails (the table could not be opened, the table refused the
	// players). Players named in a failed call are known to the host as bounced.
	faultRate   int             // 0: the host never fails; n: one callback call in n fails while armed
	faultArmed  bool            // faults are injected only while armed ("after faults stop" for C20)
	faultAt     map[int]bool    // replay: ordinals of the callback calls that fail
	cbCalls     int             // callback calls so far
	faultInCall bool            // a fault was injected during the regulator call in progress
	bounced     map[string]bool // named in a failed callback and not seen in the queue or at a table since
	// early re-entry: a player who busts registers again before his table has reported the bust
	earlyReentry bool
	forceEarly   bool           // replay: the next sync carries an early re-entry
	lastAdded    []string       // the names of the last registration call
	unreported   map[string]int // table id -> eliminations that happened and are not reported yet
}

type pendingRelease struct {
	id      string
	players []string
}

type WorldCase struct {
	Max     int    `json:"max_players_per_table"`
	Min     int    `json:"min_initial_players"`
	History string `json:"history"`
}

func (w *World) fail(rule, cause, msg string) {
	if w.failed {
		return
	}
	tr := w.trace
	w.rep.Violate(&Violation{Prop: w.prop, Rule: rule, Cause: cause, Msg: msg, Kind: "world",
		Case: &WorldCase{Max: w.max, Min: w.min, History: strings.Join(tr, " ")}, Seed: w.seed, CaseIndex: w.idx})
	w.failed = true
}

func (w *World) on(p string) bool { return w.props[p] }

func newWorld(prop string, props []string, max, min int, rep *Report, seed int64, idx int, rng *rand.Rand) *World {
	w := &World{prop: prop, props: map[string]bool{}, max: max, min: min, tables: map[string][]string{}, where: map[string]string{}, alive: map[string]bool{}, rep: rep, seed: seed, idx: idx, rng: rng}
	for _, p := range props {
		w.props[p] = true
	}
	w.r = reg.NewRegulator(
		reg.MaxPlayersPerTable(max), reg.MinInitialPlayers(min),
		reg.WithRequestTableFn(func(players []string) (string, error) {
			if w.hostFails() {
				// the host cannot open a table right now. What was asked is judged all the same.
				w.rep.Inc("class_open_refused_by_host")
				if w.on("C19") {
					w.rep.Inc("oracle_evaluations")
					if len(players) > w.max {
						w.fail("C19/opened-above-capacity", "when=open", fmt.Sprintf("a table was requested for %d players, capacity %d (the host failed the request)", len(players), w.max))
					}
					if w.status == 0 {
						w.fail("C19/opened-before-start", "when=open", "a table was requested while the competition is pending (the host failed the request)")
					}
				}
				w.bounce(players)
				return "", errors.New("host: no table can be opened now")
			}
			w.nextT++
			id := fmt.Sprintf("t%d", w.nextT)
			w.rep.Inc("tables_opened")
			if w.on("C19") {
				w.rep.Inc("oracle_evaluations")
				if len(players) > w.max {
					w.fail("C19/opened-above-capacity", "when=open", fmt.Sprintf("table %s opened with %d players, capacity %d", id, len(players), w.max))
				}
				if w.status == 0 {
					w.fail("C19/opened-before-start", "when=open", fmt.Sprintf("table %s opened while the competition is pending", id))
				}
				if len(w.tables) == 0 && !w.everHadTable() && w.nAlive < w.min {
					w.fail("C19/opened-before-minimum", "when=open", fmt.Sprintf("table %s opened with %d registered players, minimum %d", id, w.nAlive, w.min))
				}
				if w.initialAlloc {
					w.rep.Inc("class_initial_allocation_tables")
					if len(players) < w.min {
						w.fail("C19/initial-table-below-minimum", "when=initial", fmt.Sprintf("initial allocation opened table %s with %d players, minimum %d", id, len(players), w.min))
					}
				} else {
					w.rep.Inc("class_late_tables")
				}
			}
			w.tables[id] = nil
			w.order = append(w.order, id)
			w.give(id, players, "open")
			return id, nil
		}),
		reg.WithAssignPlayersFn(func(id string, players []string) error {
			if _, ok := w.tables[id]; !ok {
				if w.on("C09") {
					w.fail("C09/assign-to-unknown-table", "when=assign", fmt.Sprintf("players %v assigned to table %s which does not exist", players, id))
				}
				return nil
			}
			if w.hostFails() {
				// the table refuses the players (its seats are locked for a hand-over, the message was lost)
				w.rep.Inc("class_assign_refused_by_host")
				if w.on("C19") && len(w.tables[id])+len(players) > w.max {
					w.rep.Inc("oracle_evaluations")
					w.fail("C19/above-capacity", "when=assign", fmt.Sprintf("table %s holds %d players and was asked to take %d more, capacity %d (the host refused the call)", id, len(w.tables[id]), len(players), w.max))
				}
				w.bounce(players)
				return errors.New("host: table " + id + " cannot take players now")
			}
			w.rep.Inc("assignments")
			w.give(id, players, "assign")
			// the host also keeps the message it received (a log, a retry queue): what the regulator handed
			// over is the host's from now on
			w.keptLists = append(w.keptLists, keptList{id: id, list: players, was: append([]string{}, players...)})
			if len(w.keptLists) > 6 {
				w.keptLists = w.keptLists[1:]
			}
			return nil
		}),
	)
	return w
}

func (w *World) everHadTable() bool { return w.nextT > 1 }

// hostFails decides whether the callback call in progress fails (fault injection in the host)
func (w *World) hostFails() bool {
	w.cbCalls++
	f := false
	if w.faultAt != nil {
		f = w.faultAt[w.cbCalls]
	} else if w.faultArmed && w.faultRate > 0 {
		f = w.rng.Intn(w.faultRate) == 0
	}
	if f {
		w.faultInCall = true
		w.rep.Inc("host_faults_injected")
		w.trace = append(w.trace, fmt.Sprintf("fault@%d", w.cbCalls))
	}
	return f
}

func (w *World) bounce(players []string) {
	if w.bounced == nil {
		w.bounced = map[string]bool{}
	}
	for _, p := range players {
		w.bounced[p] = true
	}
}

func (w *World) give(id string, players []string, when string) {
	for _, p := range players {
		delete(w.bounced, p)
	}
	if when == "open" && len(w.tables[id]) == 0 && len(players) > 0 {
		// the table keeps the list it was handed as its roster and appends to it later (the repo's own
		// test callbacks do the same): the regulator must not go on using that memory
		for _, p := range players {
			if w.on("C09") {
				if !w.alive[p] {
					w.fail("C09/handed-out-eliminated-or-unknown", "when="+when, fmt.Sprintf("player %s handed to %s but is not a live registered player", p, id))
				}
				if w.where[p] != "" {
					w.fail("C09/handed-out-twice", "when="+when, fmt.Sprintf("player %s already sits at %s and is handed to %s", p, w.where[p], id))
				}
			}
			w.where[p] = id
		}
		w.tables[id] = players
		if w.on("C19") && len(w.tables[id]) > w.max {
			w.rep.Inc("oracle_evaluations")
			w.fail("C19/above-capacity", "when="+when, fmt.Sprintf("table %s now holds %d players, capacity %d", id, len(w.tables[id]), w.max))
		}
		return
	}
	for _, p := range players {
		if w.on("C09") {
			if !w.alive[p] {
				w.fail("C09/handed-out-eliminated-or-unknown", "when="+when, fmt.Sprintf("player %s handed to %s but is not a live registered player", p, id))
			}
			if w.where[p] != "" {
				w.fail("C09/handed-out-twice", "when="+when, fmt.Sprintf("player %s already sits at %s and is handed to %s", p, w.where[p], id))
			}
		}
		w.where[p] = id
		w.tables[id] = append(w.tables[id], p)
	}
	if w.on("C19") && len(w.tables[id]) > w.max {
		w.rep.Inc("oracle_evaluations")
		w.fail("C19/above-capacity", "when="+when, fmt.Sprintf("table %s now holds %d players, capacity %d", id, len(w.tables[id]), w.max))
	}
}

// snapshot of everything observable, for "refused without changing anything"
func (w *World) observable() string {
	var sb strings.Builder
	fmt.Fprint(&sb, reg.VerifWaitingQueue(w.r), w.r.GetPlayerCount(), w.r.GetTableCount())
	ids := append([]string{}, w.order...)
	sort.Strings(ids)
	for _, id := range ids {
		if t := w.r.GetTable(id); t != nil {
			fmt.Fprint(&sb, id, t.PlayerCount, t.Required, ";")
		} else {
			fmt.Fprint(&sb, id, "nil;")
		}
	}
	return sb.String()
}

// callerBuffer: the names go to the regulator in a buffer the caller owns and re-uses for its next
// message (a chunked reader, a pooled slice). Once the call has returned the regulator must not depend on it.
func (w *World) callerBuffer(names []string) []string {
	w.buf = append(w.buf[:0], names...)
	return w.buf
}

func (w *World) reuseBuffer() {
	for i := range w.buf {
		w.ghosts++
		w.buf[i] = fmt.Sprintf("not-a-player-%d", w.ghosts)
	}
	if len(w.buf) > 0 {
		w.rep.Inc("class_caller_buffer_reused")
	}
}

// deliverPending hands delayed releases to the regulator (all of them, or each with probability 1/2)
func (w *World) deliverPending(all bool) {
	var keep []pendingRelease
	for _, pr := range w.pending {
		if !all && w.rng.Intn(2) == 0 {
			keep = append(keep, pr)
			continue
		}
		for _, p := range pr.players {
			delete(w.transit, p)
		}
		w.rep.Inc("releases")
		w.trace = append(w.trace, fmt.Sprintf("release(%s,%d)", pr.id, len(pr.players)))
		w.faultInCall = false
		if err := w.r.ReleasePlayers(pr.id, w.callerBuffer(pr.players)); err != nil && w.on("C09") && !w.faultInCall {
			w.fail("C09/release-refused", "op=release", err.Error())
		}
		w.reuseBuffer()
	}
	w.pending = keep
}

// quiescent-point check
func (w *World) check(tag string) {
	if !w.on("C09") || w.failed {
		return
	}
	w.rep.Inc("oracle_evaluations")
	w.rep.Inc("quiescent_checks")
	for _, k := range w.keptLists {
		for i := range k.was {
			if k.list[i] != k.was[i] {
				w.fail("C09/handed-out-list-rewritten", "after="+tag, fmt.Sprintf("the list handed to table %s read %v when it was delivered and reads %v now: the regulator went on writing to memory it had given away (players of that hand-out dropped, others doubled for a host that keeps the list)", k.id, k.was, k.list))
				return
			}
		}
	}
	q := reg.VerifWaitingQueue(w.r)
	inq := map[string]int{}
	for _, p := range q {
		inq[p]++
		delete(w.bounced, p)
		if !w.alive[p] {
			w.fail("C09/queue-holds-eliminated-or-unknown", "after="+tag, fmt.Sprintf("queue holds %s", p))
			return
		}
	}
	if len(q) > 0 {
		w.rep.Inc("class_players_waiting")
	}
	n := 0
	for p, a := range w.alive {
		if !a {
			continue
		}
		n++
		places := inq[p]
		if w.where[p] != "" {
			places++
		}
		if w.transit[p] {
			places++ // released by a table, not yet handed back to the regulator
		}
		if places == 0 && w.bounced[p] {
			// named in a callback the host failed and not queued again by the regulator: the host knows
			// about this player, nothing was lost silently
			w.rep.Inc("class_player_bounced_by_failed_host_call")
			continue
		}
		if places == 0 {
			w.fail("C09/player-dropped", "after="+tag, fmt.Sprintf("live player %s is neither waiting nor at a table", p))
			return
		}
		if places > 1 {
			w.fail("C09/player-duplicated", "after="+tag, fmt.Sprintf("live player %s is in %d places (table %q, queued %d times)", p, places, w.where[p], inq[p]))
			return
		}
	}
	late := 0
	for _, k := range w.unreported {
		late += k
	}
	if got := w.r.GetPlayerCount(); got != n+late {
		w.fail("C09/player-count", "after="+tag, fmt.Sprintf("regulator counts %d players, %d are alive (and %d eliminations are not reported yet)", got, n, late))
		return
	}
	if got := w.r.GetTableCount(); got != len(w.tables) {
		w.fail("C09/table-count", "after="+tag, fmt.Sprintf("regulator counts %d tables, %d exist", got, len(w.tables)))
		return
	}
	for id, m := range w.tables {
		t := w.r.GetTable(id)
		if t == nil {
			w.fail("C09/table-unknown-to-regulator", "after="+tag, "table "+id)
			return
		}
		if t.PlayerCount != len(m)+w.unreported[id] {
			w.fail("C09/table-player-count", "after="+tag, fmt.Sprintf("regulator counts %d players at %s, %d sit there (%d eliminations not reported yet)", t.PlayerCount, id, len(m), w.unreported[id]))
			return
		}
	}
}

func (w *World) add(n int) {
	// batches are windows of one roster array when they fit (a caller registering its list piece by
	// piece), otherwise fresh slices (walk-ins): the regulator must not keep or write through them
	var ps []string
	if w.roster == nil {
		w.roster = make([]string, 0, 4096)
	}
	if w.rng.Intn(3) != 0 && len(w.roster)+n <= cap(w.roster) {
		start := len(w.roster)
		for i := 0; i < n; i++ {
			w.nextP++
			w.roster = append(w.roster, fmt.Sprintf("p%d", w.nextP))
		}
		ps = w.roster[start : start+n] // capacity reaches into the part of the roster not registered yet
	} else {
		ps = make([]string, 0, n)
		for i := 0; i < n; i++ {
			w.nextP++
			ps = append(ps, fmt.Sprintf("w%d", w.nextP))
		}
	}
	if len(w.busted) > 0 && w.rng.Intn(4) == 0 {
		// re-entry: an eliminated player registers again under the same id
		for i := range ps {
			if len(w.busted) == 0 || w.rng.Intn(2) == 0 {
				continue
			}
			k := w.rng.Intn(len(w.busted))
			if !w.alive[w.busted[k]] {
				ps[i] = w.busted[k]
				w.rep.Inc("class_re_entry")
			}
			w.busted = append(w.busted[:k:k], w.busted[k+1:]...)
		}
	}
	w.trace = append(w.trace, fmt.Sprintf("add%d", n))
	w.rep.Inc("world_steps")
	if w.status == 2 {
		before := w.observable()
		err := w.r.AddPlayers(w.callerBuffer(ps))
		w.reuseBuffer()
		if w.on("C09") {
			w.rep.Inc("class_registration_after_deadline")
			if err == nil {
				w.fail("C09/late-registration-accepted", "op=add", "AddPlayers after the deadline returned no error")
				return
			}
			if after := w.observable(); after != before {
				w.fail("C09/refused-but-changed", "op=add", fmt.Sprintf("refused late registration changed the regulator: %s -> %s", before, after))
				return
			}
		}
		w.check("add")
		return
	}
	for _, p := range ps {
		w.alive[p] = true
	}
	w.nAlive += n
	w.initialAlloc = w.status != 0 && w.nextT == 0
	w.lastAdded = append(w.lastAdded[:0], ps...)
	w.faultInCall = false
	err := w.r.AddPlayers(w.callerBuffer(ps))
	w.reuseBuffer()
	w.initialAlloc = false
	if err != nil && w.on("C09") && !w.faultInCall {
		w.fail("C09/registration-refused", "op=add", err.Error())
	}
	if n > w.max && len(w.tables) > 0 {
		w.rep.Inc("class_late_batch_above_capacity")
	}
	w.check("add")
}

func (w *World) setStatus(s int) {
	w.trace = append(w.trace, fmt.Sprintf("status%d", s))
	w.rep.Inc("world_steps")
	w.status = s
	w.initialAlloc = s == 1 && w.nextT == 0
	w.r.SetStatus(reg.CompetitionStatus(s))
	if w.initialAlloc && len(w.tables) > 0 {
		w.rep.Inc("class_initial_allocation")
		if w.nAlive%w.max != 0 {
			w.rep.Inc("class_initial_allocation_with_remainder")
		}
	}
	w.initialAlloc = false
	w.check("status")
}

func (w *World) unknownTable() {
	w.trace = append(w.trace, "sync(nope)")
	w.rep.Inc("world_steps")
	w.rep.Inc("class_unknown_table")
	name := "no-such-table"
	if len(w.dead) > 0 && w.rng.Intn(2) == 0 {
		name = w.dead[w.rng.Intn(len(w.dead))] // the last report of a broken table is delivered once more
		w.rep.Inc("class_late_report_of_broken_table")
	}
	before := w.observable()
	_, _, err := w.r.SyncState(name, w.rng.Intn(3))
	t := w.r.GetTable(name)
	after := w.observable()
	if !w.on("C09") {
		return
	}
	if err != reg.ErrNotFoundTable || t != nil {
		w.fail("C09/unknown-table-accepted", "op=sync", fmt.Sprintf("SyncState on an unknown table returned %v", err))
		return
	}
	if before != after {
		w.fail("C09/refused-but-changed", "op=sync", fmt.Sprintf("refused sync changed the regulator: %s -> %s", before, after))
	}
}

// sync one table: eliminate `out` members, report, carry out the instructions. Returns whether the
// regulator asked for anything (release, hand-out or break).
func (w *World) sync(id string, out int) bool {
	m := w.tables[id]
	if out > len(m) {
		out = len(m)
	}
	early := out > 0 && w.status != 2 && (w.forceEarly || w.earlyReentry && w.rng.Intn(3) == 0)
	w.forceEarly = false
	var justBusted []string
	for i := 0; i < out; i++ {
		k := w.rng.Intn(len(m))
		if early && i == 0 {
			// the newcomer busts first: the last registrant, when he sits here
			for j, q := range m {
				if hasStr(w.lastAdded, q) {
					k = j
				}
			}
		}
		p := m[k]
		m = append(m[:k:k], m[k+1:]...)
		w.alive[p] = false
		w.where[p] = ""
		w.nAlive--
		w.busted = append(w.busted, p)
		justBusted = append(justBusted, p)
	}
	w.tables[id] = m
	if early {
		// the player who just busted buys in again at the desk before the table's report has gone out
		p := justBusted[0]
		w.trace = append(w.trace, fmt.Sprintf("bust-and-re-enter(%s,%d)", id, out))
		w.rep.Inc("class_re_entry_before_the_bust_is_reported")
		if w.unreported == nil {
			w.unreported = map[string]int{}
		}
		w.unreported[id] = out
		for i, q := range w.busted {
			if q == p {
				w.busted = append(w.busted[:i:i], w.busted[i+1:]...)
				break
			}
		}
		w.alive[p] = true
		w.nAlive++
		w.lastAdded = append(w.lastAdded[:0], p)
		w.faultInCall = false
		err := w.r.AddPlayers(w.callerBuffer([]string{p}))
		w.reuseBuffer()
		if err != nil && w.on("C09") && !w.faultInCall {
			w.fail("C09/registration-refused", "op=add", err.Error())
		}
		w.check("add")
		m = w.tables[id]
		delete(w.unreported, id)
		if w.failed {
			return false
		}
	}
	w.trace = append(w.trace, fmt.Sprintf("sync(%s,%d)", id, out))
	w.rep.Inc("world_steps")
	w.rep.Inc("syncs")
	rel, newp, err := w.r.SyncState(id, out)
	if err != nil {
		if w.on("C09") {
			w.fail("C09/sync-refused", "op=sync", fmt.Sprintf("SyncState(%s,%d): %v", id, out, err))
		}
		w.failed = true
		return false
	}
	asked := rel > 0 || len(newp) > 0
	if len(newp) > 0 {
		w.rep.Inc("top_ups")
	}
	w.give(id, newp, "sync")
	m = w.tables[id]
	broken := w.r.GetTable(id) == nil
	if broken {
		asked = true
		w.rep.Inc("class_table_broken")
		if w.on("C20") {
			w.rep.Inc("oracle_evaluations")
			if len(m) > 0 && len(w.tables) == 1 {
				w.fail("C20/break-with-no-other-table", "op=break", fmt.Sprintf("table %s is told to break with %d players while no other table exists: they cannot be queued for another table", id, len(m)))
				return asked
			}
			if rel != len(m) {
				w.fail("C20/break-partial", "op=break", fmt.Sprintf("table %s is told to break but to release %d of its %d players", id, rel, len(m)))
				return asked
			}
		}
		rel = len(m)
	}
	if rel > len(m) {
		if w.on("C09") {
			w.fail("C09/release-more-than-seated", "op=sync", fmt.Sprintf("table %s asked to release %d of %d players", id, rel, len(m)))
		}
		rel = len(m)
	}
	if rel < 0 {
		if w.on("C09") {
			w.fail("C09/negative-release", "op=sync", fmt.Sprintf("table %s asked to release %d players", id, rel))
		}
		rel = 0
	}
	released := []string{}
	for i := 0; i < rel; i++ {
		k := w.rng.Intn(len(m))
		p := m[k]
		m = append(m[:k:k], m[k+1:]...)
		w.where[p] = ""
		released = append(released, p)
	}
	w.tables[id] = m
	if broken {
		delete(w.tables, id)
		for i, x := range w.order {
			if x == id {
				w.order = append(w.order[:i:i], w.order[i+1:]...)
				break
			}
		}
	}
	if broken {
		w.dead = append(w.dead, id)
	}
	if (len(released) > 0 || broken) && (w.holdReleases || w.delayReleases && w.rng.Intn(3) == 0) {
		// the table delivers its release a little later (other tables report in between)
		if w.transit == nil {
			w.transit = map[string]bool{}
		}
		for _, p := range released {
			w.transit[p] = true
		}
		w.pending = append(w.pending, pendingRelease{id, released})
		w.rep.Inc("class_delayed_release")
		w.trace = append(w.trace, fmt.Sprintf("release-later(%s,%d)", id, len(released)))
		return asked
	}
	if len(released) > 0 || broken {
		w.rep.Inc("releases")
		w.trace = append(w.trace, fmt.Sprintf("release(%s,%d)", id, len(released)))
		w.faultInCall = false
		if err := w.r.ReleasePlayers(id, w.callerBuffer(released)); err != nil && w.on("C09") && !w.faultInCall {
			w.fail("C09/release-refused", "op=release", err.Error())
		}
		w.reuseBuffer()
		if broken && w.on("C20") {
			q := reg.VerifWaitingQueue(w.r)
			for _, p := range released {
				if w.where[p] != "" || w.bounced[p] {
					continue
				}
				if !hasStr(q, p) {
					w.fail("C20/broken-table-player-lost", "op=break", fmt.Sprintf("player %s of broken table %s is neither queued nor at another table", p, id))
					return asked
				}
			}
		}
	}
	return asked
}

// sweepToFixpoint: sync every table once per sweep (random order, no eliminations) until a sweep
// asks for nothing; returns the number of sweeps that asked for something
func (w *World) sweepToFixpoint(bound int) (int, bool) {
	// the order within a sweep: a fresh random order every sweep, or - adversarial and the same rule for
	// every sweep - the fullest table first, or the emptiest first
	mode := w.rng.Intn(3)
	w.rep.Inc([]string{"class_sweeps_in_random_order", "class_sweeps_fullest_table_first", "class_sweeps_emptiest_table_first"}[mode])
	if w.status == 0 {
		w.rep.Inc("class_sweeps_while_registration_on_hold")
	}
	for sweeps := 0; sweeps <= bound; sweeps++ {
		asked := false
		ids := append([]string{}, w.order...)
		w.rng.Shuffle(len(ids), func(i, j int) { ids[i], ids[j] = ids[j], ids[i] })
		if mode != 0 {
			sort.SliceStable(ids, func(i, j int) bool {
				a, b := len(w.tables[ids[i]]), len(w.tables[ids[j]])
				if mode == 1 {
					return a > b
				}
				return a < b
			})
		}
		w.trace = append(w.trace, "|sweep"+[]string{"", ":fullest-first", ":emptiest-first"}[mode])
		for _, id := range ids {
			if _, ok := w.tables[id]; !ok {
				continue
			}
			if w.sync(id, 0) {
				asked = true
			}
			w.deliverPending(true)
			w.check("sweep")
			if w.failed {
				return sweeps, false
			}
		}
		if !asked {
			return sweeps, true
		}
	}
	return bound + 1, false
}

func genSettings(r *rand.Rand) (int, int) {
	max := 2 + r.Intn(9)
	min := 2 + r.Intn(max-1)
	if r.Intn(4) == 0 {
		max, min = 9, 6
	}
	return max, min
}

// short random history; ends with the C20 sweep when asked
func runWorldHistory(w *World, r *rand.Rand, withSweep bool) {
	defer func() {
		if e := recover(); e != nil {
			w.fail(w.prop+"/panic", "regulator", fmt.Sprintf("the regulator panicked: %v", e))
		}
	}()
	w.rep.Inc("histories")
	w.delayReleases = r.Intn(3) == 0
	w.earlyReentry = r.Intn(3) == 0
	steps := 3 + r.Intn(58)
	for s := 0; s < steps && !w.failed; s++ {
		if len(w.pending) > 0 {
			w.deliverPending(false)
			w.check("release")
		}
		switch k := r.Intn(20); {
		case k < 6:
			n := 1 + r.Intn(3)
			switch r.Intn(6) {
			case 0:
				n = 1 + r.Intn(4*w.max)
			case 1:
				n = w.max*(1+r.Intn(6)) + r.Intn(3) - 1 // around a multiple of the capacity
			case 2:
				if r.Intn(10) == 0 {
					n = 300
				}
			}
			if n < 1 {
				n = 1
			}
			w.add(n)
		case k < 8:
			if w.status == 1 && r.Intn(8) == 0 {
				w.setStatus(0) // the competition is paused (back to pending) and resumed later
				w.rep.Inc("class_paused")
			} else if w.status == 0 && w.nextT > 0 && r.Intn(4) == 0 {
				w.setStatus(2) // the deadline passes while the competition is on hold
				w.rep.Inc("class_deadline_while_on_hold")
			} else if w.status < 2 && (w.status == 0 || r.Intn(3) == 0) {
				w.setStatus(w.status + 1)
			}
		case k < 9:
			w.unknownTable()
		default:
			if len(w.order) == 0 {
				continue
			}
			id := w.order[r.Intn(len(w.order))]
			out := 0
			if r.Intn(2) == 0 {
				out = r.Intn(4)
			}
			w.sync(id, out)
			w.check("sync")
		}
	}
	if len(w.pending) > 0 && !w.failed {
		w.deliverPending(true)
		w.check("release")
	}
	if withSweep && !w.failed && len(w.tables) > 0 && w.nextT > 0 {
		if w.status == 0 && r.Intn(2) == 0 {
			w.setStatus(1) // resume before looking for the fixpoint - or look for it while registration is on hold
		}
		w.sweepCheck()
	}
	if !w.failed {
		w.rep.Seen("nontrivial", fmt.Sprint(w.max, w.min, w.trace))
	}
}

// a tournament that is put on hold with releases still on their way, takes late registrants while on
// hold, passes its registration deadline on hold, and only then gets the releases - then random play
func runWorldHoldDeadline(w *World, r *rand.Rand, withSweep bool) {
	defer func() {
		if e := recover(); e != nil {
			w.fail(w.prop+"/panic", "regulator", fmt.Sprintf("the regulator panicked: %v", e))
		}
	}()
	w.rep.Inc("histories")
	w.rep.Inc("hold_and_deadline_scenarios")
	if r.Intn(3) == 0 {
		runWorldQuietHold(w, r, withSweep)
		return
	}
	w.add(w.max*(2+r.Intn(4)) + r.Intn(w.max))
	w.setStatus(1)
	w.holdReleases = true
	for k := 2 + r.Intn(4); k > 0 && len(w.order) > 0 && !w.failed; k-- {
		id := w.order[r.Intn(len(w.order))]
		w.sync(id, r.Intn(4))
		w.check("sync")
	}
	w.holdReleases = false
	if w.failed {
		return
	}
	w.setStatus(0)
	w.rep.Inc("class_paused")
	for k := 1 + r.Intn(3); k > 0 && !w.failed; k-- {
		w.add(1 + r.Intn(2*w.max))
	}
	if r.Intn(3) != 0 {
		w.setStatus(2)
		w.rep.Inc("class_deadline_while_on_hold")
	} else {
		w.setStatus(1)
	}
	w.deliverPending(true)
	w.check("release")
	for s := 0; s < 6 && !w.failed && len(w.order) > 0; s++ {
		w.sync(w.order[r.Intn(len(w.order))], r.Intn(3))
		w.check("sync")
		if len(w.pending) > 0 {
			w.deliverPending(false)
			w.check("release")
		}
	}
	if len(w.pending) > 0 && !w.failed {
		w.deliverPending(true)
		w.check("release")
	}
	if withSweep && !w.failed && len(w.tables) > 0 {
		w.sweepCheck()
	}
	if !w.failed {
		w.rep.Seen("nontrivial", fmt.Sprint(w.max, w.min, w.trace))
	}
}

// a competition that is started before anybody registers and later put on hold with nobody registering
// during the hold: the releases held back arrive on hold, tables report and are topped up on hold, and only
// after play has resumed do new players register
func runWorldQuietHold(w *World, r *rand.Rand, withSweep bool) {
	w.rep.Inc("class_hold_without_registrations")
	w.setStatus(1)
	w.add(w.max + r.Intn(2*w.max+1))
	if r.Intn(2) == 0 {
		w.add(1 + r.Intn(w.max))
	}
	w.holdReleases = true
	for k := 1 + r.Intn(4); k > 0 && len(w.order) > 0 && !w.failed; k-- {
		w.sync(w.order[r.Intn(len(w.order))], r.Intn(4))
		w.check("sync")
	}
	w.holdReleases = false
	if w.failed {
		return
	}
	w.setStatus(0)
	w.rep.Inc("class_paused")
	w.deliverPending(true)
	w.check("release")
	for k := 1 + r.Intn(4); k > 0 && len(w.order) > 0 && !w.failed; k-- {
		w.sync(w.order[r.Intn(len(w.order))], r.Intn(3))
		w.check("sync")
	}
	if w.failed {
		return
	}
	w.setStatus(1)
	for k := 1 + r.Intn(3); k > 0 && !w.failed; k-- {
		w.add(1 + r.Intn(w.max))
		if len(w.order) > 0 && r.Intn(2) == 0 {
			w.sync(w.order[r.Intn(len(w.order))], r.Intn(3))
			w.check("sync")
		}
	}
	if len(w.pending) > 0 && !w.failed {
		w.deliverPending(true)
		w.check("release")
	}
	if withSweep && !w.failed && len(w.tables) > 0 {
		w.sweepCheck()
	}
	if !w.failed {
		w.rep.Seen("nontrivial", fmt.Sprint(w.max, w.min, w.trace))
	}
}

func (w *World) sweepCheck() {
	// C20 speaks about what happens once nothing else does: the host stops failing for the search
	armed := w.faultArmed
	w.faultArmed = false
	defer func() { w.faultArmed = armed }()
	if w.faultRate > 0 {
		w.rep.Inc("class_fixpoint_search_after_host_faults")
	}
	T0 := len(w.tables)
	bound := T0 + 8
	sweeps, ok := w.sweepToFixpoint(bound)
	if w.failed {
		return
	}
	w.rep.Inc("oracle_evaluations")
	w.rep.Inc("fixpoint_searches")
	w.rep.HistAdd("sweeps_to_fixpoint", int64(sweeps))
	w.rep.Max("max_sweeps_to_fixpoint", int64(sweeps))
	if sweeps >= 1 {
		w.rep.Inc("class_rebalancing_needed")
		w.rep.Seen("nontrivial20", fmt.Sprint(w.max, w.min, w.trace))
	}
	if !ok && w.on("C20") {
		w.fail("C20/no-fixpoint", "sweeps>bound", fmt.Sprintf("still moving players after %d sweeps (started with %d tables)", bound+1, T0))
	}
}

// long tournament: big registration, late registration, eliminations down to the final table
func runWorldTournament(w *World, r *rand.Rand) {
	defer func() {
		if e := recover(); e != nil {
			w.fail(w.prop+"/panic", "regulator", fmt.Sprintf("the regulator panicked: %v", e))
		}
	}()
	w.rep.Inc("histories")
	w.rep.Inc("long_tournaments")
	w.delayReleases = r.Intn(3) == 0
	w.earlyReentry = r.Intn(3) == 0
	w.add(1 + r.Intn(300))
	w.setStatus(1)
	for k := 0; k < 5 && !w.failed; k++ {
		w.add(1 + r.Intn(60))
	}
	closeAt := r.Intn(30)
	for round := 0; round < 80 && len(w.order) > 0 && !w.failed; round++ {
		if round == closeAt {
			w.setStatus(2)
		}
		if w.status == 1 && r.Intn(3) == 0 {
			w.add(1 + r.Intn(20))
		}
		ids := append([]string{}, w.order...)
		r.Shuffle(len(ids), func(i, j int) { ids[i], ids[j] = ids[j], ids[i] })
		for _, id := range ids {
			if _, ok := w.tables[id]; !ok || w.failed {
				continue
			}
			if r.Intn(3) == 0 {
				continue // silent table
			}
			w.sync(id, r.Intn(4))
			w.check("sync")
		}
		if len(w.pending) > 0 && !w.failed {
			w.deliverPending(r.Intn(2) == 0)
			w.check("release")
		}
		if r.Intn(4) == 0 && !w.failed && len(w.tables) > 0 {
			w.deliverPending(true)
			w.sweepCheck()
		}
		if len(w.tables) == 1 && w.status == 2 {
			w.rep.Inc("class_final_table_reached")
		}
	}
	if !w.failed {
		w.rep.Seen("nontrivial", fmt.Sprint(w.max, w.min, len(w.trace), w.trace[:minInt(len(w.trace), 60)]))
	}
}

func minInt(a, b int) int {
	if a < b {
		return a
	}
	return b
}

// replayWorld re-executes a recorded history (which members are eliminated or released is chosen
// afresh: the regulator only sees counts and ids it handed out itself)
func replayWorld(w *World, history string) {
	defer func() {
		if e := recover(); e != nil {
			w.fail(w.prop+"/panic", "regulator", fmt.Sprintf("the regulator panicked: %v", e))
		}
	}()
	for _, f := range strings.Fields(history) {
		if strings.HasPrefix(f, "fault@") {
			var k int
			fmt.Sscan(f[6:], &k)
			if w.faultAt == nil {
				w.faultAt = map[int]bool{}
			}
			w.faultAt[k] = true
		}
	}
	for _, f := range strings.Fields(history) {
		if w.failed {
			return
		}
		switch {
		case strings.HasPrefix(f, "add"):
			var n int
			fmt.Sscan(f[3:], &n)
			w.add(n)
		case strings.HasPrefix(f, "status"):
			var k int
			fmt.Sscan(f[6:], &k)
			w.setStatus(k)
		case strings.HasPrefix(f, "bust-and-re-enter("):
			w.forceEarly = true
		case f == "sync(nope)":
			w.unknownTable()
		case strings.HasPrefix(f, "sync("):
			var id string
			var out int
			body := strings.TrimSuffix(strings.TrimPrefix(f, "sync("), ")")
			parts := strings.Split(body, ",")
			if len(parts) == 2 {
				id = parts[0]
				fmt.Sscan(parts[1], &out)
				if _, ok := w.tables[id]; ok {
					w.sync(id, out)
					w.check("sync")
				}
			}
		}
	}
	if !w.failed && w.on("C20") && len(w.tables) > 0 && w.status >= 1 {
		w.sweepCheck()
	}
}
