package main

// C08 under concurrency: Next() is one atomic step for the other seat operations. A second goroutine
// keeps one or two seated players sitting out and back in (or leaving and re-joining) while the
// table moves from hand to hand; after every successful Next() the toggler is parked and the positions
// are required to be right for SOME status the toggled seats could have had at the moment of the move:
// the playable set is (playable seats not toggled) plus any subset of the toggled seats. Positions
// that fit no such set (the dealer chosen with the seat in and the blinds with the seat out) have no
// sequential explanation.

import (
	"fmt"
	"math/rand"
	"runtime"
	"sync/atomic"

	sm "github.com/weedbox/pokerface/seat_manager"
)

type c08ConcCase struct {
	Max     int      `json:"max"`
	Seated  []int    `json:"seated"`
	Toggled []int    `json:"toggled_seats"`
	Mode    string   `json:"toggle"`
	Hand    int      `json:"hand"`
	State   string   `json:"state_after_next"`
	Note    string   `json:"note"`
	Recent  []string `json:"recent_positions"`
}

func positionsFit(pp []int, d, sb, bb, max int) bool {
	if len(pp) < 2 || !inInts(pp, d) || !inInts(pp, sb) || !inInts(pp, bb) {
		return false
	}
	if len(pp) == 2 {
		return sb == d && bb != d
	}
	es := firstAfter(pp, d, max)
	eb := firstAfter(pp, es, max)
	return sb == es && bb == eb
}

func runNextUnderToggle(prop string, rep *Report, seed int64, idx int, r *rand.Rand, hands int) {
	max := 3 + r.Intn(7)
	m := sm.NewSeatManager(max)
	k := 3 + r.Intn(max-2)
	if k > max {
		k = max
	}
	seated := r.Perm(max)[:k]
	for _, s := range seated {
		m.Join(s, fmt.Sprintf("p%d", s))
		m.Seat(s)
	}
	if m.Next() != nil {
		return
	}
	nt := 1 + r.Intn(2)
	if k <= 3 {
		nt = 1
	}
	toggled := append([]int{}, seated[:nt]...)
	leaveMode := r.Intn(3) == 0
	mode := "reserve/sit-in"
	if leaveMode {
		mode = "leave/join/sit-in"
	}
	rep.Inc("concurrent_next_scenarios")

	var stop, pause, parked, dead int32
	var togglePanic atomic.Value
	done := make(chan struct{})
	go func() {
		defer close(done)
		defer func() {
			if e := recover(); e != nil {
				togglePanic.Store(fmt.Sprint(e))
				atomic.StoreInt32(&dead, 1)
			}
		}()
		n := 0
		for atomic.LoadInt32(&stop) == 0 {
			if atomic.LoadInt32(&pause) == 1 {
				atomic.StoreInt32(&parked, 1)
				for atomic.LoadInt32(&pause) == 1 && atomic.LoadInt32(&stop) == 0 {
					runtime.Gosched()
				}
				atomic.StoreInt32(&parked, 0)
				continue
			}
			x := toggled[n%len(toggled)]
			n++
			if leaveMode {
				m.Leave(x)
				m.Join(x, fmt.Sprintf("p%d", x))
				m.Seat(x)
			} else {
				m.Reserve(x)
				m.Seat(x)
			}
		}
	}()
	defer func() {
		atomic.StoreInt32(&stop, 1)
		<-done
	}()

	var recent []string
	nonToggled := func() []int {
		b := []int{}
		for _, x := range playableOf(viewSeats(m)) {
			if !inInts(toggled, x) {
				b = append(b, x)
			}
		}
		return b
	}
	// C17: the seats that could play before the move, whatever the toggled ones were doing, and the button
	prevBase, prevD := nonToggled(), dealerID(m)
	for h := 0; h < hands; h++ {
		var err error
		var pan interface{}
		func() {
			defer func() { pan = recover() }()
			err = m.Next()
		}()
		// park the toggler, then look
		atomic.StoreInt32(&pause, 1)
		for atomic.LoadInt32(&parked) == 0 && atomic.LoadInt32(&dead) == 0 {
			runtime.Gosched()
		}
		if atomic.LoadInt32(&dead) == 1 && pan == nil {
			pan = fmt.Sprintf("(in the toggling goroutine) %v", togglePanic.Load())
		}
		if pan != nil {
			rep.Violate(&Violation{Prop: prop, Rule: prop + "/panic-under-concurrency", Cause: "toggle=" + mode, Msg: fmt.Sprintf("Next() panicked while another goroutine toggled seats %v: %v", toggled, pan), Kind: "conc",
				Case: &c08ConcCase{Max: max, Seated: seated, Toggled: toggled, Mode: mode, Hand: h, Recent: recent}, Seed: seed, CaseIndex: idx})
			return
		}
		if prop == "C17" {
			rep.Inc("concurrent_next_checked")
			rep.Inc("oracle_evaluations")
			nd := dealerID(m)
			cc := &c08ConcCase{Max: max, Seated: seated, Toggled: toggled, Mode: mode, Hand: h, Recent: recent,
				Note: "not replayable step by step: it needs the other goroutine's operation to land inside Next(); re-run the check"}
			if len(prevBase) >= 2 {
				rep.Inc("class_two_or_more_playable_before")
				if err != nil {
					rep.Violate(&Violation{Prop: prop, Rule: "C17/refused-with-two-playable", Cause: "concurrent", Kind: "conc", Case: cc, Seed: seed, CaseIndex: idx,
						Msg: fmt.Sprintf("table of %d, seats %v toggled (%s) by another goroutine: Next() refused (%v) although seats %v, which nobody touched, could play", max, toggled, mode, err, prevBase)})
					return
				}
				if prevD >= 0 {
					ok := false
					var want []int
					for mask := 0; mask < 1<<uint(len(toggled)); mask++ {
						pp := append([]int{}, prevBase...)
						for i, x := range toggled {
							if mask&(1<<uint(i)) != 0 {
								pp = append(pp, x)
							}
						}
						e := firstAfter(pp, prevD, max)
						want = append(want, e)
						ok = ok || e == nd
					}
					rep.Inc("button_moves_checked")
					if !ok {
						rep.Violate(&Violation{Prop: prop, Rule: "C17/button", Cause: "concurrent", Kind: "conc", Case: cc, Seed: seed, CaseIndex: idx,
							Msg: fmt.Sprintf("table of %d, seats %v toggled (%s) by another goroutine: button was on %d, untouched playable seats %v, moved to %d; for every status of the toggled seats the next player clockwise is one of %v", max, toggled, mode, prevD, prevBase, nd, want)})
						return
					}
					if inInts(toggled, nd) {
						rep.Inc("class_position_on_toggled_seat")
					}
					rep.Seen("nontrivial17", fmt.Sprint(max, prevD, prevBase, nd))
				}
			}
			recent = append(recent, fmt.Sprintf("hand %d: button %d -> %d err=%v", h, prevD, nd, err))
			if len(recent) > 6 {
				recent = recent[1:]
			}
			prevBase, prevD = nonToggled(), nd
		} else if err == nil {
			rep.Inc("concurrent_next_checked")
			rep.Inc("oracle_evaluations")
			post := viewSeats(m)
			d, sb, bb := m.Dealer(), m.SmallBlind(), m.BigBlind()
			state := ""
			for _, v := range post {
				switch {
				case v.occ && v.act && !v.res:
					state += "P"
				case v.occ:
					state += "w"
				case v.act:
					state += "."
				default:
					state += "x"
				}
			}
			if d == nil || sb == nil || bb == nil {
				rep.Violate(&Violation{Prop: prop, Rule: "C08/nil-position", Cause: "concurrent", Msg: "Next() succeeded under concurrent sit-outs but a position is unset", Kind: "conc",
					Case: &c08ConcCase{Max: max, Seated: seated, Toggled: toggled, Mode: mode, Hand: h, State: state, Recent: recent}, Seed: seed, CaseIndex: idx})
				return
			}
			base := []int{}
			for _, x := range playableOf(post) {
				if !inInts(toggled, x) {
					base = append(base, x)
				}
			}
			fit := false
			for mask := 0; mask < 1<<uint(len(toggled)) && !fit; mask++ {
				pp := append([]int{}, base...)
				for i, x := range toggled {
					if mask&(1<<uint(i)) != 0 {
						pp = append(pp, x)
					}
				}
				fit = positionsFit(pp, d.ID, sb.ID, bb.ID, max)
			}
			line := fmt.Sprintf("hand %d: %s dealer=%d sb=%d bb=%d", h, state, d.ID, sb.ID, bb.ID)
			recent = append(recent, line)
			if len(recent) > 6 {
				recent = recent[1:]
			}
			if !fit {
				rep.Violate(&Violation{Prop: prop, Rule: "C08/positions-under-concurrent-sit-out", Cause: "toggle=" + mode,
					Msg:  fmt.Sprintf("table of %d, seats %v toggled (%s) by another goroutine: after Next() dealer=%d sb=%d bb=%d with seats %s (P playable, w waiting, . empty, x closed) fit no status the toggled seats could have had during the move", max, toggled, mode, d.ID, sb.ID, bb.ID, state),
					Kind: "conc", Case: &c08ConcCase{Max: max, Seated: seated, Toggled: toggled, Mode: mode, Hand: h, State: state, Recent: recent,
						Note: "not replayable step by step: it needs the other goroutine's operation to land inside Next(); re-run the check"}, Seed: seed, CaseIndex: idx})
				return
			}
			if inInts(toggled, d.ID) || inInts(toggled, sb.ID) || inInts(toggled, bb.ID) {
				rep.Inc("class_position_on_toggled_seat")
			}
			rep.Seen("nontrivial08", fmt.Sprint(max, d.ID, playableOf(post)))
		} else {
			rep.Inc("concurrent_next_refused")
		}
		atomic.StoreInt32(&pause, 0)
		for atomic.LoadInt32(&parked) == 1 && atomic.LoadInt32(&dead) == 0 {
			runtime.Gosched()
		}
		// let the toggler get going again before the next move
		for y := r.Intn(4); y > 0; y-- {
			runtime.Gosched()
		}
	}
}
