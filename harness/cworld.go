package main

import (
	"encoding/json"
	"errors"
	"fmt"
	"math/rand"
	"os"
	"runtime"
	"sort"
	"strings"
	"sync"
	"sync/atomic"
	"time"

	reg "github.com/weedbox/pokerface/regulator"
)

// Concurrent tournament world: registrars and table owners call the regulator from different
// goroutines (every table is driven by one goroutine at a time, as a real table is). While they run
// nothing is asserted - and the regulator's unlocked getters are not touched -; at quiescence the
// C09 ledger (every live player in exactly one place, counters) and the C19 capacity bound must hold.

type cworld struct {
	mu     sync.Mutex
	r      reg.Regulator
	max    int
	min    int
	tables map[string][]string
	busy   map[string]bool
	where  map[string]string
	alive  map[string]bool
	nextT  int
	nextP  int64
	events []string
	viol   []*Violation
	seed   int64
	idx    int
	// failing host (as in the sequential world): one callback call in faultRate fails while it is > 0
	faultRate int
	frng      *rand.Rand
	bounced   map[string]bool
	faults    int
}

// hostFails is called with w.mu held
func (w *cworld) hostFails(players []string, what string) bool {
	if w.faultRate == 0 || w.frng.Intn(w.faultRate) != 0 {
		return false
	}
	w.faults++
	if w.bounced == nil {
		w.bounced = map[string]bool{}
	}
	for _, p := range players {
		w.bounced[p] = true
	}
	w.log("%s-fails(%d)", what, len(players))
	return true
}

func (w *cworld) log(f string, a ...interface{}) {
	if len(w.events) < 400 {
		w.events = append(w.events, fmt.Sprintf(f, a...))
	}
}

func (w *cworld) fail(prop, rule, msg string) {
	if len(w.viol) > 8 {
		return
	}
	w.viol = append(w.viol, &Violation{Prop: prop, Rule: rule, Cause: "concurrent", Msg: msg, Kind: "conc",
		Case: map[string]interface{}{"max": w.max, "min": w.min, "events": strings.Join(w.events, " ")}, Seed: w.seed, CaseIndex: w.idx})
}

// give is called with w.mu held
func (w *cworld) give(id string, players []string, when string) {
	for _, p := range players {
		delete(w.bounced, p)
		if !w.alive[p] {
			w.fail("C09", "C09/handed-out-eliminated-or-unknown", fmt.Sprintf("player %s handed to %s (%s) but is not a live registered player", p, id, when))
		}
		if w.where[p] != "" {
			w.fail("C09", "C09/handed-out-twice", fmt.Sprintf("player %s already sits at %s and is handed to %s (%s)", p, w.where[p], id, when))
		}
		w.where[p] = id
		w.tables[id] = append(w.tables[id], p)
	}
}

func newCWorld(max, min int, seed int64, idx int) *cworld {
	w := &cworld{max: max, min: min, tables: map[string][]string{}, busy: map[string]bool{}, where: map[string]string{}, alive: map[string]bool{}, seed: seed, idx: idx}
	pause := func() {
		// a real callback talks to a table: give other goroutines a chance to run into the regulator
		runtime.Gosched()
		time.Sleep(30 * time.Microsecond)
	}
	w.r = reg.NewRegulator(reg.MaxPlayersPerTable(max), reg.MinInitialPlayers(min),
		reg.WithRequestTableFn(func(players []string) (string, error) {
			w.mu.Lock()
			if len(players) > w.max {
				w.fail("C19", "C19/opened-above-capacity", fmt.Sprintf("a table was requested for %d players, capacity %d", len(players), w.max))
			}
			if w.hostFails(players, "open") {
				w.mu.Unlock()
				pause()
				return "", errors.New("host: no table can be opened now")
			}
			w.nextT++
			id := fmt.Sprintf("t%d", w.nextT)
			w.tables[id] = nil
			w.log("open(%s,%d)", id, len(players))
			w.give(id, players, "open")
			w.mu.Unlock()
			pause()
			return id, nil
		}),
		reg.WithAssignPlayersFn(func(id string, players []string) error {
			w.mu.Lock()
			if _, ok := w.tables[id]; !ok {
				w.fail("C09", "C09/assign-to-unknown-table", fmt.Sprintf("players %v assigned to table %s which does not exist", players, id))
				w.mu.Unlock()
				return nil
			}
			if w.hostFails(players, "assign") {
				w.mu.Unlock()
				pause()
				return errors.New("host: table " + id + " cannot take players now")
			}
			w.log("assign(%s,%d)", id, len(players))
			w.give(id, players, "assign")
			w.mu.Unlock()
			pause()
			return nil
		}),
	)
	return w
}

func (w *cworld) register(r *rand.Rand, n int) {
	ps := make([]string, 0, n)
	w.mu.Lock()
	for i := 0; i < n; i++ {
		p := fmt.Sprintf("p%d", atomic.AddInt64(&w.nextP, 1))
		w.alive[p] = true
		ps = append(ps, p)
	}
	w.log("add%d", n)
	w.mu.Unlock()
	w.r.AddPlayers(ps)
	// the message buffer is the caller's again
	for i := range ps {
		ps[i] = "not-a-player"
	}
}

// one turn of a table owner: pick a free table, eliminate, sync, carry out the instructions
func (w *cworld) tableTurn(r *rand.Rand) {
	w.mu.Lock()
	var ids []string
	for id := range w.tables {
		if !w.busy[id] {
			ids = append(ids, id)
		}
	}
	if len(ids) == 0 {
		w.mu.Unlock()
		return
	}
	// map order is random; pick by index for more spread
	sort.Strings(ids)
	id := ids[r.Intn(len(ids))]
	out := 0
	if r.Intn(2) == 0 {
		out = r.Intn(3)
	}
	w.mu.Unlock()
	w.turn(r, id, out)
}

// turn: one report of table id with `out` eliminations; returns whether the regulator asked for anything
func (w *cworld) turn(r *rand.Rand, id string, out int) bool {
	w.mu.Lock()
	if _, ok := w.tables[id]; !ok || w.busy[id] {
		w.mu.Unlock()
		return false
	}
	w.busy[id] = true
	m := w.tables[id]
	if out > len(m) {
		out = len(m)
	}
	for i := 0; i < out; i++ {
		k := r.Intn(len(m))
		p := m[k]
		m = append(m[:k:k], m[k+1:]...)
		w.alive[p] = false
		w.where[p] = ""
	}
	w.tables[id] = m
	w.log("sync(%s,%d)", id, out)
	w.mu.Unlock()

	rel, newp, err := w.r.SyncState(id, out)
	broken := w.r.GetTable(id) == nil

	w.mu.Lock()
	if err != nil {
		w.fail("C09", "C09/sync-refused", fmt.Sprintf("SyncState(%s,%d): %v", id, out, err))
		w.busy[id] = false
		w.mu.Unlock()
		return false
	}
	asked := rel > 0 || len(newp) > 0 || broken
	w.give(id, newp, "sync")
	m = w.tables[id]
	if broken {
		rel = len(m)
	}
	if rel > len(m) {
		rel = len(m)
	}
	if rel < 0 {
		rel = 0
	}
	released := []string{}
	for i := 0; i < rel; i++ {
		k := r.Intn(len(m))
		p := m[k]
		m = append(m[:k:k], m[k+1:]...)
		w.where[p] = ""
		released = append(released, p)
	}
	w.tables[id] = m
	if broken {
		delete(w.tables, id)
		w.log("broken(%s)", id)
	}
	if len(released) > 0 {
		w.log("release(%s,%d)", id, len(released))
	}
	w.mu.Unlock()
	if len(released) > 0 || broken {
		buf := append([]string{}, released...)
		w.r.ReleasePlayers(id, buf)
		for i := range buf {
			buf[i] = "not-a-player"
		}
	}
	w.mu.Lock()
	w.busy[id] = false
	w.mu.Unlock()
	return asked
}

// settle: after the concurrent phase, sweep every table (no eliminations) until a sweep asks for nothing
func (w *cworld) settle(r *rand.Rand, rep *Report) {
	w.mu.Lock()
	T0 := len(w.tables)
	w.mu.Unlock()
	bound := T0 + 8
	for sweep := 0; sweep <= bound; sweep++ {
		w.mu.Lock()
		var ids []string
		for id := range w.tables {
			ids = append(ids, id)
		}
		w.mu.Unlock()
		sort.Strings(ids)
		r.Shuffle(len(ids), func(i, j int) { ids[i], ids[j] = ids[j], ids[i] })
		asked := false
		for _, id := range ids {
			if w.turn(r, id, 0) {
				asked = true
			}
		}
		if !asked {
			rep.Inc("concurrent_worlds_settled")
			rep.HistAdd("sweeps_to_fixpoint_after_concurrent_phase", int64(sweep))
			return
		}
	}
	w.fail("C20", "C20/no-fixpoint", fmt.Sprintf("after a phase of concurrent registrations, reports and releases the tables are still being moved after %d sweeps (started with %d tables)", bound+1, T0))
}

// quiescence: every goroutine has returned
func (w *cworld) checkQuiescent(rep *Report) {
	q := reg.VerifWaitingQueue(w.r)
	inq := map[string]int{}
	for _, p := range q {
		inq[p]++
	}
	n := 0
	for p, a := range w.alive {
		if !a {
			continue
		}
		n++
		places := inq[p]
		if w.where[p] != "" {
			places++
		}
		if places == 0 && w.bounced[p] && inq[p] == 0 {
			continue // named in a callback the host failed: known to the host, not lost silently
		}
		if places == 0 {
			w.fail("C09", "C09/player-dropped", fmt.Sprintf("after concurrent registrations and syncs, live player %s is neither waiting nor at a table", p))
		}
		if places > 1 {
			w.fail("C09", "C09/player-duplicated", fmt.Sprintf("after concurrent registrations and syncs, live player %s is in %d places (table %q, queued %d times)", p, places, w.where[p], inq[p]))
		}
	}
	for p := range inq {
		if !w.alive[p] {
			w.fail("C09", "C09/queue-holds-eliminated-or-unknown", "queue holds "+p)
		}
	}
	if got := w.r.GetPlayerCount(); got != n {
		w.fail("C09", "C09/player-count", fmt.Sprintf("after concurrent registrations and syncs the regulator counts %d players, %d are alive", got, n))
	}
	if got := w.r.GetTableCount(); got != len(w.tables) {
		w.fail("C09", "C09/table-count", fmt.Sprintf("after concurrent registrations and syncs the regulator counts %d tables, %d exist", got, len(w.tables)))
	}
	for id, m := range w.tables {
		t := w.r.GetTable(id)
		if t == nil {
			w.fail("C09", "C09/table-unknown-to-regulator", "table "+id)
			continue
		}
		if t.PlayerCount != len(m) {
			w.fail("C09", "C09/table-player-count", fmt.Sprintf("after concurrent registrations and syncs the regulator counts %d players at %s, %d sit there", t.PlayerCount, id, len(m)))
		}
		if len(m) > w.max || t.PlayerCount > w.max {
			w.fail("C19", "C19/above-capacity", fmt.Sprintf("after concurrent registrations and syncs table %s holds %d players (regulator: %d), capacity %d", id, len(m), t.PlayerCount, w.max))
		}
	}
	rep.Inc("concurrent_quiescent_checks")
	rep.Add("concurrent_players_registered", atomic.LoadInt64(&w.nextP))
	rep.Add("concurrent_tables_opened", int64(w.nextT))
}

func runCWorld(seed int64, stream int64, idx int, rep *Report) {
	r := caseRand(seed, stream, idx)
	max, min := genSettings(r)
	w := newCWorld(max, min, seed, idx)
	w.register(r, min+r.Intn(4*max))
	w.r.SetStatus(reg.CompetitionStatus_Normal)
	var wg sync.WaitGroup
	G := 3 + r.Intn(5)
	if r.Intn(3) == 0 {
		// one concurrent tournament in three has a host that fails during the concurrent phase
		w.mu.Lock()
		w.frng = caseRand(seed, stream*977+5, idx)
		w.faultRate = 3 + r.Intn(7)
		w.mu.Unlock()
	}
	for g := 0; g < G; g++ {
		wg.Add(1)
		gr := caseRand(seed, stream*131+int64(g), idx)
		go func(g int, r *rand.Rand) {
			defer wg.Done()
			defer func() {
				if e := recover(); e != nil {
					w.mu.Lock()
					w.fail("C09", "C09/panic", fmt.Sprintf("the regulator panicked under concurrent use: %v", e))
					w.mu.Unlock()
				}
			}()
			for i := 0; i < 6+r.Intn(10); i++ {
				if g%2 == 0 && r.Intn(2) == 0 {
					w.register(r, 1+r.Intn(3))
				} else {
					w.tableTurn(r)
				}
			}
		}(g, gr)
	}
	wg.Wait()
	w.mu.Lock()
	w.faultRate = 0 // the host stops failing: the ledger and the settling sweeps look at what the faults left behind
	if w.faults > 0 {
		rep.Inc("concurrent_tournaments_with_host_faults")
		rep.Add("concurrent_host_faults_injected", int64(w.faults))
	}
	w.mu.Unlock()
	w.checkQuiescent(rep)
	w.settle(r, rep)
	rep.Inc("concurrent_tournaments")
	for _, v := range w.viol {
		rep.Violate(v)
	}
	if idx%50 == 0 {
		ev := w.events
		if len(ev) > 30 {
			ev = ev[:30]
		}
		rep.Sample(map[string]interface{}{"concurrent_tournament": strings.Join(ev, " "), "max": max, "min": min, "goroutines": G}, 5)
	}
}

func cworldBatch(seed int64, stream int64, n int, rep *Report, parallel int) {
	// (the regulator prints a line on standard output for every failed hand-over)
	stdout := os.Stdout
	if dn, err := os.OpenFile(os.DevNull, os.O_WRONLY, 0); err == nil {
		os.Stdout = dn
		defer func() { os.Stdout = stdout; dn.Close() }()
	}
	var wg sync.WaitGroup
	var next int64 = -1
	for p := 0; p < parallel; p++ {
		wg.Add(1)
		go func() {
			defer wg.Done()
			local := NewReport()
			for {
				i := int(atomic.AddInt64(&next, 1))
				if i >= n {
					break
				}
				runCWorld(seed, stream, i, local)
			}
			rep.Merge(local)
		}()
	}
	wg.Wait()
}

// body of the -race child for C09/C19
func c09RaceMain(seed int64, n int) int {
	rep := NewReport()
	for k, procs := range []int{2, 8} {
		old := runtime.GOMAXPROCS(procs)
		cworldBatch(seed, int64(900+k), n, rep, 3)
		runtime.GOMAXPROCS(old)
	}
	out := map[string]interface{}{"counters": rep.Counters, "violations": rep.Viol, "violation_counts": rep.ViolCount}
	b, _ := json.Marshal(out)
	fmt.Println("RESULT " + string(b))
	return 0
}
