package main

import (
	"sort"

	"github.com/weedbox/pokerface/combination"
)

// Independent five-card evaluator (written without looking at how /repo scores hands):
// category by counting ranks and suits, tiebreak vector = ranks ordered by multiplicity then rank.

const (
	catHighCard = iota
	catPair
	catTwoPair
	catTrips
	catStraight
	catFlush
	catFullHouse
	catQuads
	catStraightFlush
)

var catToCombination = map[int]combination.Combination{
	catHighCard:      combination.CombinationHighCard,
	catPair:          combination.CombinationPair,
	catTwoPair:       combination.CombinationTwoPair,
	catTrips:         combination.CombinationThreeOfAKind,
	catStraight:      combination.CombinationStraight,
	catFlush:         combination.CombinationFlush,
	catFullHouse:     combination.CombinationFullHouse,
	catQuads:         combination.CombinationFourOfAKind,
	catStraightFlush: combination.CombinationStraightFlush,
}

var catName = map[int]string{
	catHighCard: "HighCard", catPair: "Pair", catTwoPair: "TwoPair", catTrips: "ThreeOfAKind", catStraight: "Straight",
	catFlush: "Flush", catFullHouse: "FullHouse", catQuads: "FourOfAKind", catStraightFlush: "StraightFlush",
}

func rankOf(b byte) int {
	switch b {
	case 'T':
		return 10
	case 'J':
		return 11
	case 'Q':
		return 12
	case 'K':
		return 13
	case 'A':
		return 14
	}
	if b >= '2' && b <= '9' {
		return int(b - '0')
	}
	return 0
}

// RefHand: Cat is the poker category, TB the tiebreak vector, Unspecified marks the short-deck
// A-6-7-8-9 whose class the property leaves open
type RefHand struct {
	Cat         int
	TB          [5]int
	Unspecified bool
}

func refEval(cards []string, short bool) RefHand {
	var cnt [15]int
	flush := true
	for i, c := range cards {
		cnt[rankOf(c[1])]++
		if i > 0 && c[0] != cards[0][0] {
			flush = false
		}
	}
	type rc struct{ r, c int }
	g := make([]rc, 0, 5)
	for r := 14; r >= 2; r-- {
		if cnt[r] > 0 {
			g = append(g, rc{r, cnt[r]})
		}
	}
	sort.SliceStable(g, func(i, j int) bool { return g[i].c > g[j].c })
	var h RefHand
	for i, x := range g {
		h.TB[i] = x.r
	}
	straight, top := false, 0
	if len(g) == 5 {
		if g[0].r-g[4].r == 4 {
			straight, top = true, g[0].r
		} else if !short && g[0].r == 14 && g[1].r == 5 && g[4].r == 2 {
			straight, top = true, 5
		} else if short && g[0].r == 14 && g[1].r == 9 && g[4].r == 6 {
			h.Unspecified = true
		}
	}
	switch {
	case straight && flush:
		h.Cat, h.TB = catStraightFlush, [5]int{top}
	case g[0].c == 4:
		h.Cat = catQuads
	case g[0].c == 3 && g[1].c == 2:
		h.Cat = catFullHouse
	case flush:
		h.Cat = catFlush
	case straight:
		h.Cat, h.TB = catStraight, [5]int{top}
	case g[0].c == 3:
		h.Cat = catTrips
	case g[0].c == 2 && g[1].c == 2:
		h.Cat = catTwoPair
	case g[0].c == 2:
		h.Cat = catPair
	default:
		h.Cat = catHighCard
	}
	return h
}

// The variant's order of categories, stated independently of the tables shipped in /repo:
// standard = ... straight < flush < full house ...; short deck = ... straight < full house < flush ...
var variantOrder = map[bool][]int{
	false: {catHighCard, catPair, catTwoPair, catTrips, catStraight, catFlush, catFullHouse, catQuads, catStraightFlush},
	true:  {catHighCard, catPair, catTwoPair, catTrips, catStraight, catFullHouse, catFlush, catQuads, catStraightFlush},
}

// category index under the variant's ranking (shortTable = short-deck ranking)
func catIndex(shortTable bool, cat int) int {
	for i, c := range variantOrder[shortTable] {
		if c == cat {
			return i
		}
	}
	return -1
}

// RefKey is totally ordered: compare Idx then TB
type RefKey struct {
	Idx int
	TB  [5]int
}

func (a RefKey) Less(b RefKey) bool {
	if a.Idx != b.Idx {
		return a.Idx < b.Idx
	}
	for i := 0; i < 5; i++ {
		if a.TB[i] != b.TB[i] {
			return a.TB[i] < b.TB[i]
		}
	}
	return false
}

func refKey(cards []string, short bool, shortTable bool) (RefKey, RefHand) {
	h := refEval(cards, short)
	return RefKey{catIndex(shortTable, h.Cat), h.TB}, h
}

func combosOf(xs []string, k int) [][]string {
	var out [][]string
	cur := make([]string, 0, k)
	var rec func(start int)
	rec = func(start int) {
		if len(cur) == k {
			out = append(out, append([]string{}, cur...))
			return
		}
		for i := start; i < len(xs); i++ {
			cur = append(cur, xs[i])
			rec(i + 1)
			cur = cur[:len(cur)-1]
		}
	}
	rec(0)
	return out
}

// admissible five-card selections for a player
func admissible(hole, board []string, req int) [][]string {
	if len(board) < 3 {
		return nil
	}
	if req == 0 {
		all := append(append([]string{}, hole...), board...)
		return combosOf(all, 5)
	}
	var out [][]string
	for _, hc := range combosOf(hole, req) {
		for _, bc := range combosOf(board, 5-req) {
			out = append(out, append(append([]string{}, hc...), bc...))
		}
	}
	return out
}

// bestAdmissible returns the best reference key over all admissible selections; unspecified
// selections are left out; tainted is true when an unspecified selection exists at all
func bestAdmissible(hole, board []string, req int, short bool, shortTable bool) (best RefKey, bestCards []string, tainted bool, ok bool) {
	best = RefKey{Idx: -1}
	for _, sel := range admissible(hole, board, req) {
		k, h := refKey(sel, short, shortTable)
		if h.Unspecified {
			tainted = true
			continue
		}
		if !ok || best.Less(k) {
			best, bestCards, ok = k, sel, true
		}
	}
	return
}
