package main

import (
	"math"
	"math/rand"

	"github.com/weedbox/pokerface"
	"github.com/weedbox/pokerface/combination"
)

// Cfg is a complete, replayable hand configuration (deck order included)
type Cfg struct {
	N          int      `json:"n"`
	Banks      []int64  `json:"banks"`
	Ante       int64    `json:"ante"`
	Dl         int64    `json:"dealer_blind"`
	SB         int64    `json:"sb"`
	BB         int64    `json:"bb"`
	DeadSB     bool     `json:"dead_sb"`
	Limit      string   `json:"limit"`
	Short      bool     `json:"short_deck"`
	Hole       int      `json:"hole"`
	Req        int      `json:"required_hole"`
	DealerIdx  int      `json:"dealer_idx"`
	Deck       []string `json:"deck"`
	Personas   []int    `json:"personas,omitempty"`
	Hostile    bool     `json:"hostile"`
	Unlabelled bool     `json:"only_dealer_labelled,omitempty"` // no seat carries the sb / bb label (a button-blind or ante-only table set up with the dealer mark alone)
	PlainCtor  bool     `json:"plain_constructor,omitempty"`    // the game is made with pokerface.NewGame (no game id) instead of the PokerFace factory
	ViaHandle  bool     `json:"via_handle,omitempty"`           // the players' actions go through the seat's Player handle (g.Player(i).Bet(x)) instead of the Game operation
	Noise      bool     `json:"noise,omitempty"`                // in-place reloads and unexpected operations are mixed into the history
	Burn       int      `json:"burn_count"`                     // Meta.BurnCount as configured (the engine always burns one card)
	PosFlip    bool     `json:"positions_reversed,omitempty"`   // list a seat's positions in reverse order
	Reuse      int      `json:"reuse,omitempty"`                // 1: the game object played part of another hand before (ApplyOptions), 2: ... and got this hand via LoadState
	Prev       *Cfg     `json:"previous_hand,omitempty"`
	PrevSteps  int      `json:"previous_hand_steps,omitempty"`
}

func rnd63(r *rand.Rand, n int64) int64 {
	if n <= 0 {
		return 0
	}
	return r.Int63n(n)
}

func pickI64(r *rand.Rand, xs ...int64) int64 { return xs[r.Intn(len(xs))] }

func baseDeck(short bool) []string {
	if short {
		return pokerface.NewShortDeckCards()
	}
	return pokerface.NewStandardDeckCards()
}

// Rankings: the variant's table, obtained the way a table obtains it (through the options constructors)
func (c *Cfg) Rankings() combination.PowerRankings {
	if c.Short {
		return pokerface.NewShortDeckGameOptions().CombinationPowers
	}
	return pokerface.NewStardardGameOptions().CombinationPowers
}

func (c *Cfg) Positions(i int) []string {
	rel := (i - c.DealerIdx + c.N) % c.N
	pos := []string{}
	if rel == 0 {
		pos = append(pos, "dealer")
	}
	if c.Unlabelled {
		return pos
	}
	if c.N == 2 {
		if rel == 0 {
			pos = append(pos, "sb")
		} else {
			pos = append(pos, "bb")
		}
		return pos
	}
	if rel == 1 && !c.DeadSB {
		pos = append(pos, "sb")
	}
	if rel == 2 {
		pos = append(pos, "bb")
	}
	return pos
}

// positions as handed to the engine (order within a seat's list is not significant)
func (c *Cfg) positionsForEngine(i int) []string {
	pos := c.Positions(i)
	if c.PosFlip && len(pos) == 2 {
		pos[0], pos[1] = pos[1], pos[0]
	}
	return pos
}

func (c *Cfg) SeatOf(pos string) int {
	for i := 0; i < c.N; i++ {
		if hasStr(c.Positions(i), pos) {
			return i
		}
	}
	return -1
}

func (c *Cfg) Opts() *pokerface.GameOptions {
	o := pokerface.NewStardardGameOptions()
	if c.Short {
		o = pokerface.NewShortDeckGameOptions()
	}
	o.Ante, o.Blind.Dealer, o.Blind.SB, o.Blind.BB = c.Ante, c.Dl, c.SB, c.BB
	o.Limit = c.Limit
	o.HoleCardsCount, o.RequiredHoleCardsCount = c.Hole, c.Req
	o.Deck = baseDeck(c.Short)
	for i := 0; i < c.N; i++ {
		o.Players = append(o.Players, &pokerface.PlayerSetting{Bankroll: c.Banks[i], Positions: c.positionsForEngine(i)})
	}
	o.BurnCount = c.Burn
	return o
}

// blind owed by seat i: first positive of bb, sb, dealer for the positions the seat holds
func (c *Cfg) BlindOwed(i int) int64 {
	pos := c.Positions(i)
	if c.BB > 0 && hasStr(pos, "bb") {
		return c.BB
	}
	if c.SB > 0 && hasStr(pos, "sb") {
		return c.SB
	}
	if c.Dl > 0 && hasStr(pos, "dealer") {
		return c.Dl
	}
	return 0
}

type GenOpts struct {
	Hostile      bool
	ForceNoLim   bool
	MinSeats     int
	ShowdownBias bool // more callers, antes and >=5 seats
	noReuse      bool
	Unlabelled   bool // some tables carry the dealer mark only
}

func shuffledDeck(r *rand.Rand, short bool) []string {
	d := baseDeck(short)
	r.Shuffle(len(d), func(i, j int) { d[i], d[j] = d[j], d[i] })
	return d
}

func genCfg(r *rand.Rand, g GenOpts) *Cfg {
	c := &Cfg{}
	c.N = 2 + r.Intn(8)
	if r.Intn(20) == 0 {
		c.N = 10
	}
	if g.ShowdownBias && r.Intn(2) == 0 {
		c.N = 5 + r.Intn(5)
	}
	if c.N < g.MinSeats {
		c.N = g.MinSeats
	}
	c.Ante = pickI64(r, 0, 0, 1, 2, 5, 10)
	if g.ShowdownBias && r.Intn(2) == 0 {
		c.Ante = pickI64(r, 1, 1, 2, 3)
	}
	c.BB = pickI64(r, 2, 10, 10, 20, 3)
	c.SB = pickI64(r, c.BB/2, c.BB/2, 1, c.BB)
	c.Dl = pickI64(r, 0, 0, 0, 0, c.BB, 2*c.BB, 1)
	switch r.Intn(24) {
	case 0, 1: // short-deck style: dealer blind only
		c.SB, c.BB, c.Dl = 0, 0, pickI64(r, 10, 100, 3)
	case 2, 3: // big blind only
		c.SB, c.Dl = 0, 0
	case 4: // no small blind amount, dealer blind
		c.SB = 0
	case 5: // no forced blinds at all (ante-only or free game)
		c.SB, c.BB, c.Dl = 0, 0, 0
	case 6: // small blind only
		if c.SB > 0 {
			c.BB, c.Dl = 0, 0
		}
	}
	c.DeadSB = r.Intn(6) == 0 && c.N >= 3
	c.Limit = "no"
	if !g.ForceNoLim && r.Intn(4) == 0 {
		c.Limit = "pot"
	}
	c.Short = r.Intn(4) == 0
	c.Hole, c.Req = 2, 0
	switch r.Intn(16) {
	case 0, 1, 2, 3:
		c.Hole, c.Req = 4, 2
	case 4:
		c.Hole, c.Req = 2, 2 // both hole cards must play
	case 5:
		c.Hole, c.Req = 3, 2
	case 6:
		c.Hole, c.Req = 3, 0
	case 7:
		c.Hole, c.Req = 5, 2
	}
	ds := 52
	if c.Short {
		ds = 36
	}
	for c.Hole*c.N+8 > ds {
		c.N--
	}
	if c.N < 3 {
		c.DeadSB = false
	}
	forced := []int64{c.Ante, c.SB, c.BB, c.Dl, c.Ante + c.SB, c.Ante + c.BB, c.Ante + c.Dl}
	band := r.Intn(10)
	for i := 0; i < c.N; i++ {
		var b int64
		k := r.Intn(5)
		if band == 0 {
			k = 1 + r.Intn(2) // all short / medium: many all-ins and side pots
		}
		if band >= 6 {
			k = 3 // deep stacks all round: several streets of real betting
		}
		switch k {
		case 0:
			f := forced[r.Intn(len(forced))]
			b = f + int64(r.Intn(3)) - 1
		case 1:
			b = 1 + int64(r.Intn(40))
		case 2:
			b = 50 + int64(r.Intn(200))
		default:
			b = 100 + int64(r.Intn(2000))
		}
		if b <= 0 {
			b = 1
		}
		c.Banks = append(c.Banks, b)
	}
	if c.Ante >= 2 && c.N >= 3 && r.Intn(12) == 0 {
		// a table of stacks around the ante: several seats short of it by different amounts, side pots from
		// the antes alone
		for i := range c.Banks {
			if r.Intn(5) != 0 {
				c.Banks[i] = 1 + int64(r.Intn(int(c.Ante)+1))
			}
		}
	}
	if r.Intn(14) == 0 {
		// very large amounts: around 2^31, 2^53 and 2^55 (32-bit and float64 conversions would show here)
		base := []int64{1 << 31, 1 << 32, 1 << 53, 1 << 55}[r.Intn(4)]
		for i := range c.Banks {
			if r.Intn(3) != 0 {
				c.Banks[i] = base + int64(r.Intn(2000)) - 1000
			}
		}
		switch r.Intn(4) {
		case 0:
			c.BB = base / 64
			c.SB = c.BB / 2
			if c.Ante > 0 {
				c.Ante = base/512 + 1
			}
			if c.Dl > 0 {
				c.Dl = c.BB
			}
		case 1:
			// forced bets that a float64 cannot hold exactly; stacks well above them
			big := int64(1 << 53)
			c.BB = 2*big + 2 + int64(r.Intn(3))
			c.SB = big + 1
			if c.Ante > 0 {
				c.Ante = big + 1 + int64(r.Intn(4))
			}
			if c.Dl > 0 {
				c.Dl = big + 3
			}
			for i := range c.Banks {
				c.Banks[i] = 32*big + int64(r.Intn(1000))
				if r.Intn(5) == 0 {
					c.Banks[i] = c.Ante + c.BlindOwed(i) + int64(r.Intn(5)) - 2
					if c.Banks[i] <= 0 {
						c.Banks[i] = big + 1
					}
				}
			}
		}
	}
	if !g.noReuse && r.Intn(8) == 0 {
		// the game object has a past: it played part of another hand (other seats, other button) before
		gg := g
		gg.noReuse = true
		c.Reuse = 1 + r.Intn(2)
		c.Prev = genCfg(r, gg)
		c.Prev.Noise = false
		c.PrevSteps = r.Intn(48)
	}
	c.Burn = 1
	if r.Intn(6) == 0 {
		c.Burn = r.Intn(4)
	}
	c.PosFlip = r.Intn(4) == 0
	c.DealerIdx = 0
	if r.Intn(3) == 0 {
		c.DealerIdx = r.Intn(c.N)
	}
	c.Deck = shuffledDeck(r, c.Short)
	c.Hostile = g.Hostile
	c.Noise = r.Intn(6) == 0
	c.ViaHandle = r.Intn(5) == 0
	c.PlainCtor = r.Intn(3) == 0
	if g.Unlabelled && r.Intn(8) == 0 {
		c.Unlabelled = true
	}
	// personas per seat
	mix := r.Intn(8)
	for i := 0; i < c.N; i++ {
		p := []int{personaRandom, personaRandom, personaRandom, personaCaller, personaCaller, personaCaller, personaMinRaiser, personaMinRaiser,
			personaFolder, personaBoundary, personaBoundary, personaManiac}[r.Intn(12)]
		switch mix {
		case 0:
			p = personaCaller
		case 1:
			p = personaMinRaiser
		case 2:
			if r.Intn(2) == 0 {
				p = personaManiac
			} else {
				p = personaCaller
			}
		}
		if g.ShowdownBias && r.Intn(3) != 0 {
			p = []int{personaCaller, personaCaller, personaManiac, personaFolder}[r.Intn(4)]
		}
		if band >= 6 && (p == personaManiac || p == personaMinRaiser) && r.Intn(4) != 0 {
			p = []int{personaRandom, personaCaller, personaMinRaiser, personaBoundary}[r.Intn(4)]
		}
		c.Personas = append(c.Personas, p)
	}
	if c.Reuse != 0 && c.Prev != nil && r.Intn(3) == 0 {
		// the usual life of a table's game object: the previous hand was the same table (same seats, stacks,
		// blinds, another cut of the deck), checked and called down to its end
		p := *c
		p.Prev, p.Reuse, p.Noise, p.PrevSteps = nil, 0, false, 0
		p.Deck = append(append([]string{}, c.Deck[17:]...), c.Deck[:17]...)
		c.Prev = &p
		c.PrevSteps = 1000
		// a session of up to three earlier hands on the same object, the button moving on by one each time
		last := &p
		for k := r.Intn(3); k > 0 && c.Reuse == 1; k-- {
			q := *last
			q.DealerIdx = (last.DealerIdx + c.N - 1) % c.N
			q.Deck = append(append([]string{}, last.Deck[5:]...), last.Deck[:5]...)
			last.Prev, last.Reuse, last.PrevSteps = &q, 1, 1000
			last = last.Prev
		}
	}
	return c
}

// ---------------------------------------------------------------------------------------------
// Strategies

const (
	personaRandom = iota
	personaCaller
	personaManiac
	personaMinRaiser
	personaFolder
	personaBoundary
	numPersonas
	personaWar = 100 // never stops: the minimum raise whenever a raise is on offer (only set by C06's tweak)
)

var hostileAmounts = []int64{0, -1, -50, -(1 << 40), 1, 1 << 50, math.MaxInt64, math.MinInt64}

type Op struct {
	Name string `json:"op"`
	Seat int    `json:"seat"` // -1: through the Game-level method; >=0: through Game.Player(seat)
	Amt  int64  `json:"amt,omitempty"`
}

func betAmount(r *rand.Rand, s *pokerface.GameState, cp *pokerface.PlayerState, persona int, hostile bool) int64 {
	var amt int64
	if persona == personaWar {
		return s.Status.MiniBet
	}
	switch persona {
	case personaMinRaiser:
		amt = s.Status.MiniBet
		if r.Intn(3) == 0 {
			amt = 1
		}
	case personaManiac:
		amt = cp.StackSize - int64(r.Intn(2))
	default:
		if r.Intn(2) == 0 {
			amt = s.Status.MiniBet + rnd63(r, 3*s.Status.MiniBet+2) // an ordinary small bet
			break
		}
		switch r.Intn(9) {
		case 8:
			amt = cp.StackSize + 1 + rnd63(r, 2*cp.StackSize+50) // clearly more than the player has
		case 0:
			amt = s.Status.MiniBet
		case 1:
			amt = 1 + int64(r.Intn(5))
		case 2:
			amt = cp.StackSize - 1
		case 3:
			amt = cp.StackSize + int64(r.Intn(3))
		case 4:
			amt = s.Status.MiniBet - 1
		case 5:
			amt = s.Status.MiniBet + 1
		default:
			amt = 1 + rnd63(r, cp.StackSize+1)
		}
	}
	if amt <= 0 {
		amt = 1
	}
	if hostile && r.Intn(4) == 0 {
		amt = hostileAmounts[r.Intn(len(hostileAmounts))]
	}
	return amt
}

func raiseAmount(r *rand.Rand, s *pokerface.GameState, cp *pokerface.PlayerState, persona int, hostile bool, lastInc int64) int64 {
	cw, prs := s.Status.CurrentWager, s.Status.PreviousRaiseSize
	if persona == personaWar {
		return cw + prs
	}
	if lastInc > 0 && r.Intn(4) == 0 {
		// the boundary of the minimum-raise rule as the driver saw it (size of the last bet or raise actually made), not as the engine recorded it
		return cw + lastInc + int64(r.Intn(3)) - 1
	}
	var amt int64
	switch persona {
	case personaMinRaiser:
		amt = cw + prs
		if r.Intn(6) == 0 {
			amt = cw + 1
		}
		if r.Intn(6) == 0 {
			amt = 2 * cw
		}
	case personaManiac:
		amt = cp.InitialStackSize - int64(r.Intn(2))
		if r.Intn(3) == 0 {
			amt = cw + 2*prs + int64(r.Intn(50))
		}
	default:
		if r.Intn(2) == 0 {
			amt = cw + prs + rnd63(r, 2*prs+2) // an ordinary small raise
			break
		}
		switch r.Intn(10) {
		case 9:
			amt = 2 * cw // the minimum raise over an opening bet, whatever the engine recorded as its size
		case 0:
			amt = cw + prs
		case 1:
			amt = cw + prs - 1
		case 2:
			amt = cw + prs + 1 + int64(r.Intn(10))
		case 3:
			amt = cp.InitialStackSize - 1
		case 4:
			amt = cp.InitialStackSize + int64(r.Intn(3))
		case 5:
			amt = cw
		case 6:
			amt = cw + 1
		default:
			amt = cw + 1 + rnd63(r, cp.InitialStackSize+1)
		}
	}
	if hostile && r.Intn(4) == 0 {
		amt = []int64{0, -1, cw - 1, -(1 << 40), 1 << 50, math.MaxInt64, math.MinInt64, 1}[r.Intn(8)]
	}
	return amt
}

// chooseAction picks an action for the seat to act, from what it was offered
func chooseAction(r *rand.Rand, s *pokerface.GameState, c *Cfg, lastInc int64) Op {
	cp := s.Players[s.Status.CurrentPlayer]
	aa := cp.AllowedActions
	persona := personaRandom
	if cp.Idx < len(c.Personas) {
		persona = c.Personas[cp.Idx]
	}
	has := func(a string) bool { return hasStr(aa, a) }
	name := ""
	switch persona {
	case personaCaller:
		switch {
		case has("pass"):
			name = "pass"
		case has("check"):
			name = "check"
		case has("call"):
			name = "call"
		default:
			if r.Intn(3) == 0 && has("fold") {
				name = "fold"
			} else {
				name = "allin"
			}
		}
		if r.Intn(12) == 0 {
			name = aa[r.Intn(len(aa))]
		}
	case personaManiac:
		switch {
		case has("pass"):
			name = "pass"
		case has("raise") && r.Intn(3) != 0:
			name = "raise"
		case has("bet") && r.Intn(3) != 0:
			name = "bet"
		case r.Intn(2) == 0:
			name = "allin"
		case has("call"):
			name = "call"
		case has("check"):
			name = "check"
		default:
			name = "allin"
		}
	case personaWar:
		switch {
		case has("pass"):
			name = "pass"
		case has("raise"):
			name = "raise"
		case has("bet"):
			name = "bet"
		case has("call"):
			name = "call"
		case has("check"):
			name = "check"
		default:
			name = "allin"
		}
	case personaMinRaiser:
		switch {
		case has("pass"):
			name = "pass"
		case has("raise") && r.Intn(8) != 0 && (len(c.Personas) == 0 || c.Personas[0] == personaMinRaiser || r.Intn(3) == 0):
			name = "raise"
		case has("bet"):
			name = "bet"
		case has("call"):
			name = "call"
		case has("check"):
			name = "check"
		default:
			name = "allin"
		}
	case personaFolder:
		switch {
		case has("pass"):
			name = "pass"
		case has("fold") && r.Intn(3) != 0:
			name = "fold"
		case has("check"):
			name = "check"
		default:
			name = aa[r.Intn(len(aa))]
		}
	default:
		name = aa[r.Intn(len(aa))]
		if (name == "fold" || name == "allin") && r.Intn(2) == 0 {
			name = aa[r.Intn(len(aa))]
		}
		if name == "allin" && len(aa) > 1 && r.Intn(6) != 0 {
			// keep shoves the exception so that hands reach later streets with chips behind
			for name == "allin" {
				name = aa[r.Intn(len(aa))]
			}
		}
	}
	op := Op{Name: name, Seat: -1}
	switch name {
	case "bet":
		op.Amt = betAmount(r, s, cp, persona, c.Hostile)
	case "raise":
		op.Amt = raiseAmount(r, s, cp, persona, c.Hostile, lastInc)
	}
	return op
}

// safe fallback after refused bets/raises
func fallbackAction(s *pokerface.GameState) Op {
	aa := s.Players[s.Status.CurrentPlayer].AllowedActions
	for _, a := range []string{"pass", "check", "call", "fold", "allin"} {
		if hasStr(aa, a) {
			return Op{Name: a, Seat: -1}
		}
	}
	return Op{Name: aa[0], Seat: -1}
}
