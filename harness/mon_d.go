package main

import (
	"bytes"
	"encoding/json"
	"fmt"
	"os"
	"os/exec"

	"github.com/weedbox/pokerface"
	"github.com/weedbox/pokerface/table"
)

// =============================================================================================
// C07 — resumable from serialized state at every wait point

// snapStable masks the fields that legitimately differ between two runs of the same hand
func snapStable(gs *pokerface.GameState) string {
	u, id, cr := gs.UpdatedAt, gs.GameID, gs.CreatedAt
	gs.UpdatedAt, gs.GameID, gs.CreatedAt = 0, "", 0
	b, _ := json.Marshal(gs)
	gs.UpdatedAt, gs.GameID, gs.CreatedAt = u, id, cr
	return string(b)
}

func nbApply(nb *table.NativeBackend, gs *pokerface.GameState, op Op) (*pokerface.GameState, error) {
	switch op.Name {
	case "ready":
		return nb.ReadyForAll(gs)
	case "ante":
		return nb.PayAnte(gs)
	case "blinds":
		return nb.PayBlinds(gs)
	case "next":
		return nb.Next(gs)
	case "pass":
		return nb.Pass(gs)
	case "fold":
		return nb.Fold(gs)
	case "check":
		return nb.Check(gs)
	case "call":
		return nb.Call(gs)
	case "allin":
		return nb.Allin(gs)
	case "bet":
		return nb.Bet(gs, op.Amt)
	case "raise":
		return nb.Raise(gs, op.Amt)
	case "pay":
		return nb.Pay(gs, op.Amt)
	}
	return nil, fmt.Errorf("harness: unknown backend op %s", op.Name)
}

type workerReq struct {
	State *pokerface.GameState `json:"state"`
	Op    Op                   `json:"op"`
}

type workerResp struct {
	State *pokerface.GameState `json:"state"`
	Err   string               `json:"err"`
}

// workerMain: a fresh OS process rebuilds the game from JSON, applies one operation, prints the state
func workerMain() int {
	var req workerReq
	if err := json.NewDecoder(os.Stdin).Decode(&req); err != nil {
		fmt.Fprintln(os.Stderr, "worker: bad request:", err)
		return 3
	}
	g := pokerface.NewPokerFace().NewGameFromState(req.State)
	resp := workerResp{}
	func() {
		defer func() {
			if e := recover(); e != nil {
				resp.Err = fmt.Sprint("panic: ", e)
			}
		}()
		if err := applyOp(g, req.Op); err != nil {
			resp.Err = err.Error()
		}
	}()
	resp.State = g.GetState()
	json.NewEncoder(os.Stdout).Encode(&resp)
	return 0
}

func viaFreshProcess(state *pokerface.GameState, op Op) (*pokerface.GameState, string, error) {
	self, err := os.Executable()
	if err != nil {
		return nil, "", err
	}
	b, _ := json.Marshal(&workerReq{State: state, Op: op})
	cmd := exec.Command(self, "worker")
	cmd.Stdin = bytes.NewReader(b)
	var out, errb bytes.Buffer
	cmd.Stdout, cmd.Stderr = &out, &errb
	if err := cmd.Run(); err != nil {
		return nil, "", fmt.Errorf("worker: %v: %s", err, errb.String())
	}
	var resp workerResp
	if err := json.Unmarshal(out.Bytes(), &resp); err != nil {
		return nil, "", fmt.Errorf("worker: bad response: %v", err)
	}
	return resp.State, resp.Err, nil
}

type C07Mon struct {
	BaseMon
	nb       *table.NativeBackend
	f2       *pokerface.GameState // state as the stateless backend carries it
	f3       *pokerface.GameState // state as a chain of fresh processes carries it
	useF3    bool
	hashes   []uint64
	f1       pokerface.Game
	f1before string
}

func (m *C07Mon) Begin(h *Hand) {
	m.nb = table.NewNativeBackend()
	m.f2 = cloneGS(h.G.GetState())
	if m.useF3 {
		m.f3 = cloneGS(h.G.GetState())
	}
	m.hashes = append(m.hashes, hash64(snapStable(h.G.GetState())))
}

func (m *C07Mon) After(h *Hand, pre *pokerface.GameState, op Op, err error, post *pokerface.GameState) {
	cause := fmt.Sprintf("op=%s,at=%s", op.Name, pre.Status.CurrentEvent)
	live := snapJSON(post)
	m.hashes = append(m.hashes, hash64(snapStable(post)))
	h.Rep.Inc("cut_points")
	h.Rep.Inc("oracle_evaluations")
	h.Rep.Seen("nontrivial", fmt.Sprint(h.CaseIdx, len(h.Trace)))
	h.Rep.Inc("cut_at_" + pre.Status.CurrentEvent)

	// F1: a game rebuilt from the JSON taken at this wait point (pre is exactly that: a JSON round trip)
	f1 := pokerface.NewPokerFace().NewGameFromState(pre)
	var e1 error
	func() {
		defer func() {
			if e := recover(); e != nil {
				h.Fail("C07/rebuilt-game-panicked", cause, fmt.Sprintf("game rebuilt from JSON panicked on %+v: %v", op, e))
			}
		}()
		e1 = applyOp(f1, op)
	}()
	if h.Aborted {
		return
	}
	if (e1 == nil) != (err == nil) {
		h.Fail("C07/rebuilt-game-error-differs", cause, fmt.Sprintf("%+v: in-memory game returned %v, game rebuilt from JSON returned %v", op, err, e1))
		return
	}
	if a := snapJSON(f1.GetState()); a != live {
		h.Fail("C07/rebuilt-game-diverged", cause, fmt.Sprintf("%+v: game rebuilt from JSON reacts differently\n live   =%s\n rebuilt=%s", op, live, a))
		return
	}

	// F2: the stateless table backend, fed its own previous output
	inBefore := snapJSON(m.f2)
	var s2 *pokerface.GameState
	var e2 error
	func() {
		defer func() {
			if e := recover(); e != nil {
				h.Fail("C07/backend-panicked", cause, fmt.Sprintf("NativeBackend panicked on %+v: %v", op, e))
			}
		}()
		s2, e2 = nbApply(m.nb, m.f2, op)
	}()
	if h.Aborted {
		return
	}
	h.Rep.Inc("backend_calls")
	if inAfter := snapJSON(m.f2); inAfter != inBefore {
		h.Fail("C07/backend-modified-input", cause, fmt.Sprintf("NativeBackend.%s modified the state handed to it", op.Name))
		return
	}
	if (e2 == nil) != (err == nil) {
		h.Fail("C07/backend-error-differs", cause, fmt.Sprintf("%+v: in-memory game returned %v, backend returned %v", op, err, e2))
		return
	}
	if e2 == nil {
		if s2 == nil {
			h.Fail("C07/backend-nil-state", cause, "backend returned neither a state nor an error")
			return
		}
		m.f2 = s2
	}
	if a := snapJSON(m.f2); a != live {
		h.Fail("C07/backend-diverged", cause, fmt.Sprintf("%+v: state carried by the stateless backend differs from the in-memory game\n live   =%s\n backend=%s", op, live, a))
		return
	}

	// F3: a fresh OS process per operation
	if m.useF3 {
		s3, e3, werr := viaFreshProcess(m.f3, op)
		if werr != nil {
			h.Rep.Inc("worker_failures")
			m.useF3 = false
			return
		}
		h.Rep.Inc("fresh_process_operations")
		if (e3 == "") != (err == nil) {
			h.Fail("C07/restart-error-differs", cause, fmt.Sprintf("%+v: in-memory game returned %v, restarted process returned %q", op, err, e3))
			return
		}
		m.f3 = s3
		if a := snapJSON(m.f3); a != live {
			h.Fail("C07/restart-diverged", cause, fmt.Sprintf("%+v: state carried across process restarts differs\n live   =%s\n restart=%s", op, live, a))
			return
		}
	}
}

// End: the same deck and the same operations always lead to the same state
func (m *C07Mon) End(h *Hand, s *pokerface.GameState) {
	g := pokerface.NewPokerFace().NewGame(h.C.Opts())
	if err := g.Start(); err != nil {
		h.Fail("C07/replay-start", "at=start", err.Error())
		return
	}
	copy(g.GetState().Meta.Deck, h.C.Deck)
	k := 0
	if hash64(snapStable(g.GetState())) != m.hashes[k] {
		h.Fail("C07/nondeterministic", "at=start", "same configuration and deck, different initial state")
		return
	}
	for _, t := range h.Trace {
		if t.Kind == "reload" {
			g.LoadState(cloneGS(g.GetState()))
			continue
		}
		if t.Kind == "query" || t.Kind == "probe" || t.Kind == "swap" {
			continue
		}
		err := applyOp(g, t.Op)
		k++
		if (err == nil) != (t.Err == "") {
			h.Fail("C07/nondeterministic", "op="+t.Op.Name, fmt.Sprintf("replaying %+v returned %v, originally %q", t.Op, err, t.Err))
			return
		}
		if k >= len(m.hashes) || hash64(snapStable(g.GetState())) != m.hashes[k] {
			h.Fail("C07/nondeterministic", "op="+t.Op.Name, fmt.Sprintf("same deck and operations, different state after step %d (%+v):\n replay=%s", k, t.Op, snapStable(g.GetState())))
			return
		}
	}
	h.Rep.Inc("deterministic_replays")
}

// a getter that rewrites the state (for example the offered actions of the seat to act)
func (m *C07Mon) QueryChanged(h *Hand, what string) {
	h.Fail("C07/state-changed-outside-operations", "by=read-only-query", what)
}
