package main

import (
	"encoding/json"
	"fmt"

	"github.com/weedbox/pokerface"
)

var roundIdx = map[string]int{"preflop": 0, "flop": 1, "turn": 2, "river": 3}

// =============================================================================================
// C04 — only the player to act can act, clockwise, in the right phase

type C04Mon struct {
	BaseMon
	round      string
	expectNext int
	sameAgain  bool
	probeEvery int
	tick       int
}

func newC04Mon(probeEvery int) *C04Mon { return &C04Mon{expectNext: -1, probeEvery: probeEvery} }

func (m *C04Mon) Wait(h *Hand, s *pokerface.GameState) {
	ev := s.Status.CurrentEvent
	n := len(s.Players)
	cause := "at=" + ev
	h.Rep.Inc("oracle_evaluations")
	// --- Oracle A: who is asked
	withActions := []int{}
	for _, p := range s.Players {
		if len(p.AllowedActions) > 0 {
			withActions = append(withActions, p.Idx)
		}
	}
	if ev == "RoundStarted" {
		if len(withActions) != 1 || withActions[0] != s.Status.CurrentPlayer {
			h.Fail("C04/not-exactly-one-asked", cause, fmt.Sprintf("seats offered actions %v, current player %d", withActions, s.Status.CurrentPlayer))
			return
		}
		cp := s.Players[s.Status.CurrentPlayer]
		if s.Status.Round != m.round {
			m.round = s.Status.Round
			m.expectNext = -1
		}
		want := m.expectNext
		if want == -1 {
			dealer, bb := -1, -1
			for _, p := range s.Players {
				if hasStr(p.Positions, "dealer") {
					dealer = p.Idx
				}
				if hasStr(p.Positions, "bb") {
					bb = p.Idx
				}
			}
			want = (dealer + 1) % n
			if m.round == "preflop" {
				want = (bb + 1) % n
				h.Rep.Inc("first_actor_preflop")
				if n == 2 {
					h.Rep.Inc("first_actor_preflop_heads_up")
				}
			} else {
				h.Rep.Inc("first_actor_postflop")
			}
			if cp.Idx != want {
				h.Fail("C04/first-actor", "round="+streetClass(m.round), fmt.Sprintf("round %s starts at seat %d, expected %d (dealer %d, bb %d, %d seats)", m.round, cp.Idx, want, dealer, bb, n))
				return
			}
		} else if cp.Idx != want {
			h.Fail("C04/seat-walk", cause, fmt.Sprintf("seat %d asked, expected %d", cp.Idx, want))
			return
		}
		if cp.Fold || cp.StackSize == 0 {
			h.Rep.Inc("pass_only_seats")
			if len(cp.AllowedActions) != 1 || cp.AllowedActions[0] != "pass" {
				h.Fail("C04/inactive-seat-offered", cause, fmt.Sprintf("folded/all-in seat %d offered %v", cp.Idx, cp.AllowedActions))
				return
			}
		}
	} else if len(withActions) != 0 {
		h.Fail("C04/actions-outside-round", cause, fmt.Sprintf("seats %v are offered actions at %s", withActions, ev))
		return
	}
	// --- Oracle B: everything that is not expected is refused without effect
	m.tick++
	if m.probeEvery > 1 && m.tick%m.probeEvery != 0 {
		return
	}
	m.probe(h, s)
	h.Rep.Seen("nontrivial", fmt.Sprint(ev, s.Status.Round, s.Status.CurrentPlayer, n, len(h.Trace), h.CaseIdx))
}

func streetClass(r string) string {
	if r == "preflop" {
		return "preflop"
	}
	return "postflop"
}

func (m *C04Mon) After(h *Hand, pre *pokerface.GameState, op Op, err error, post *pokerface.GameState) {
	if pre.Status.CurrentEvent != "RoundStarted" {
		return
	}
	if err != nil {
		m.expectNext = pre.Status.CurrentPlayer // refused: the same seat is still to act
		return
	}
	m.expectNext = (pre.Status.CurrentPlayer + 1) % len(pre.Players)
}

func (m *C04Mon) probe(h *Hand, s *pokerface.GameState) {
	ev := s.Status.CurrentEvent
	g := h.G
	n := len(s.Players)
	r := h.R
	amounts := func() int64 {
		switch r.Intn(6) {
		case 0:
			return 1
		case 1:
			return s.Status.MiniBet
		case 2:
			return s.Status.CurrentWager + s.Status.PreviousRaiseSize
		case 3:
			return s.Status.CurrentWager + 50
		case 4:
			return 1 << 40
		}
		return 10
	}
	type probe struct {
		op    Op
		class string
	}
	var probes []probe
	for _, t := range []struct{ ev, op string }{{"ReadyRequested", "ready"}, {"AnteRequested", "ante"}, {"BlindsRequested", "blinds"}, {"RoundClosed", "next"}} {
		if ev != t.ev {
			probes = append(probes, probe{Op{Name: t.op, Seat: -1}, "probes_table_op_wrong_phase"})
		}
	}
	actions := []string{"pass", "fold", "check", "call", "allin", "bet", "raise", "pay"}
	if ev != "RoundStarted" {
		for _, a := range actions {
			probes = append(probes, probe{Op{Name: a, Seat: -1, Amt: amounts()}, "probes_action_outside_round"})
		}
	}
	for i := 0; i < n; i++ {
		al := s.Players[i].AllowedActions
		class := "probes_other_seat"
		if ev == "RoundStarted" && i == s.Status.CurrentPlayer {
			class = "probes_current_seat_not_offered"
		} else if ev != "RoundStarted" {
			class = "probes_seat_outside_round"
		}
		for _, a := range actions {
			if !hasStr(al, a) {
				probes = append(probes, probe{Op{Name: a, Seat: i, Amt: amounts()}, class})
			}
		}
		if ev == "RoundStarted" && i == s.Status.CurrentPlayer && hasStr(al, "raise") && !hasStr(al, "call") && s.Status.CurrentWager > 0 {
			// a raise "to" the standing wager lifts nothing: it is a call, and call was not offered
			probes = append(probes, probe{Op{Name: "raise", Seat: i, Amt: s.Status.CurrentWager}, "probes_raise_to_standing_wager_without_call"})
		}
		if ev != "AnteRequested" {
			probes = append(probes, probe{Op{Name: "payante", Seat: i}, "probes_seat_forced_bet_wrong_phase"})
		}
		if ev != "BlindsRequested" {
			probes = append(probes, probe{Op{Name: "payblinds", Seat: i}, "probes_seat_forced_bet_wrong_phase"})
		}
	}
	// seat indices that are not in this hand (an engine object that served a bigger table before may
	// still know them)
	for _, i := range []int{seatMinusOne, n, n + 1, n + 3} {
		for _, a := range []string{"pass", "check", "fold", "call", "allin", "bet"} {
			probes = append(probes, probe{Op{Name: a, Seat: i, Amt: amounts()}, "probes_seat_not_in_hand"})
		}
	}
	before := snapJSON(s)
	for _, p := range probes {
		var err error
		func() {
			defer func() {
				if e := recover(); e != nil {
					err = nil
					h.Fail("C04/refusal-panicked", fmt.Sprintf("op=%s,at=%s", p.op.Name, ev), fmt.Sprintf("unexpected %+v at %s panicked: %v", p.op, ev, e))
				}
			}()
			err = applyOp(g, p.op)
		}()
		if h.Aborted {
			return
		}
		h.Rep.Inc("refusal_probes")
		h.Rep.Inc(p.class)
		who := "other"
		if p.op.Seat == -1 {
			who = "table"
		} else if ev == "RoundStarted" && p.op.Seat == s.Status.CurrentPlayer {
			who = "current"
		}
		if p.op.Seat < -1 || p.op.Seat >= n {
			who = "absent"
		}
		if err == nil {
			h.Trace = append(h.Trace, TraceStep{Op: p.op, Err: "accepted", Kind: "probe"})
			h.Fail("C04/accepted", fmt.Sprintf("op=%s,by=%s,at=%s", p.op.Name, who, ev), fmt.Sprintf("%+v at %s (current player %d, offered %v) returned no error", p.op, ev, s.Status.CurrentPlayer, s.Players[maxInt(0, p.op.Seat)%n].AllowedActions))
			return
		}
		if after := snapJSON(g.GetState()); after != before {
			h.Trace = append(h.Trace, TraceStep{Op: p.op, Err: err.Error(), Kind: "probe"})
			h.Fail("C04/refused-but-changed", fmt.Sprintf("op=%s,by=%s,at=%s", p.op.Name, who, ev), fmt.Sprintf("%+v at %s was refused (%v) but changed the state:\n before=%s\n after=%s", p.op, ev, err, before, after))
			return
		}
	}
}

func maxInt(a, b int) int {
	if a > b {
		return a
	}
	return b
}

// =============================================================================================
// C05 — a betting round closes exactly when it should

type C05Mon struct {
	BaseMon
	round      string
	opened     bool
	closeSeen  bool
	step       int
	turn       []int
	lastUp     int // step of the last increase of the wager to match (blinds = 0)
	tsb        int // accepted turns since the last increase or all-in
	runout     bool
	resetRaise int
	resetAllin int
	oneLeftAt  int
}

func (m *C05Mon) newStreet(s *pokerface.GameState) {
	m.round = s.Status.Round
	m.opened, m.closeSeen = false, false
	m.step, m.lastUp, m.tsb = 0, 0, 0
	m.turn = make([]int, len(s.Players))
	for i := range m.turn {
		m.turn[i] = -1
	}
}

func (m *C05Mon) Wait(h *Hand, s *pokerface.GameState) {
	ev := s.Status.CurrentEvent
	if s.Status.Round != m.round {
		m.newStreet(s)
	}
	cause := "round=" + streetClass(s.Status.Round)
	if ev == "RoundStarted" {
		m.opened = true
		if m.runout {
			h.Fail("C05/betting-after-runout", cause, fmt.Sprintf("a betting round was opened on the %s although fewer than two players have chips", s.Status.Round))
			return
		}
	}
	if ev == "ReadyRequested" && m.runout {
		h.Fail("C05/betting-after-runout", cause, fmt.Sprintf("the %s asks for readiness although fewer than two players have chips", s.Status.Round))
		return
	}
	if ev == "RoundClosed" && !m.closeSeen {
		m.closeSeen = true
		h.Rep.Inc("oracle_evaluations")
		alive, movable := aliveCount(s), movableCount(s)
		if alive >= 2 {
			// the wager to match, independently: the largest wager on the table
			cw := maxWager(s)
			if m.opened {
				h.Rep.Inc("rounds_closed_checked")
			} else {
				h.Rep.Inc("streets_closed_without_betting_checked")
			}
			for _, p := range s.Players {
				if p.Fold || p.StackSize == 0 {
					continue
				}
				if p.Wager != cw {
					h.Fail("C05/closed-unmatched", cause, fmt.Sprintf("round closed but seat %d with chips has wager %d < %d to match (opened=%v)", p.Idx, p.Wager, cw, m.opened))
					return
				}
				if m.opened && (m.turn[p.Idx] < m.lastUp || m.turn[p.Idx] < 0) {
					h.Fail("C05/closed-without-turn", cause, fmt.Sprintf("round closed but seat %d has not had a turn since the wager last went up (turn step %d, last increase at step %d)", p.Idx, m.turn[p.Idx], m.lastUp))
					return
				}
			}
			if m.opened && m.resetRaise > 0 && m.resetAllin > 0 {
				h.Rep.Seen("nontrivial", traceKey(h))
			}
		}
		if alive >= 2 && movable < 2 {
			if !m.runout {
				h.Rep.Inc("runouts_armed")
			}
			m.runout = true
		}
	}
}

func (m *C05Mon) After(h *Hand, pre *pokerface.GameState, op Op, err error, post *pokerface.GameState) {
	if err != nil {
		return
	}
	n := len(pre.Players)
	cause := "round=" + streetClass(pre.Status.Round)
	if pre.Status.CurrentEvent == "RoundStarted" {
		i := pre.Status.CurrentPlayer
		a, b := pre.Players[i], post.Players[i]
		if post.Status.Round != pre.Status.Round {
			return // cannot happen on an action; C06 watches the automaton
		}
		m.step++
		m.turn[i] = m.step
		up := maxWager(post) > maxWager(pre)
		allin := a.StackSize > 0 && b.StackSize == 0
		if up {
			m.lastUp = m.step
			m.resetRaise++
		}
		if up || allin {
			m.tsb = 0
			if allin && !up {
				m.resetAllin++
			}
		} else {
			m.tsb++
		}
		h.Rep.Inc("oracle_evaluations")
		alive := aliveCount(post)
		switch post.Status.CurrentEvent {
		case "RoundStarted":
			if alive == 1 {
				h.Fail("C05/one-left-not-closed", cause, "one non-folded player is left but the round is still open")
				return
			}
			if m.tsb >= n {
				h.Fail("C05/lap-exceeded", cause, fmt.Sprintf("%d turns since the last wager increase or all-in at a table of %d and the round is still open", m.tsb, n))
				return
			}
		case "RoundClosed":
			if alive == 1 {
				h.Rep.Inc("closed_by_last_fold")
			}
		default:
			h.Fail("C05/unexpected-event", cause, "after an action the hand is at "+post.Status.CurrentEvent)
			return
		}
		return
	}
	if op.Name == "next" {
		h.Rep.Inc("oracle_evaluations")
		if aliveCount(pre) == 1 {
			h.Rep.Inc("early_endings")
			if post.Status.CurrentEvent != "GameClosed" || len(post.Status.Board) != len(pre.Status.Board) {
				h.Fail("C05/one-left-dealt-on", cause, fmt.Sprintf("one non-folded player but Next() led to %s with board %v (was %v)", post.Status.CurrentEvent, post.Status.Board, pre.Status.Board))
				return
			}
			return
		}
		if m.runout {
			h.Rep.Inc("runout_streets")
			pe := post.Status.CurrentEvent
			if pe != "RoundClosed" && pe != "GameClosed" {
				h.Fail("C05/betting-after-runout", cause, fmt.Sprintf("fewer than two players have chips but Next() led to %s on the %s", pe, post.Status.Round))
				return
			}
			if pe == "RoundClosed" && roundIdx[post.Status.Round] != roundIdx[pre.Status.Round]+1 {
				h.Fail("C05/runout-street-skipped", cause, fmt.Sprintf("run-out went from %s to %s", pre.Status.Round, post.Status.Round))
				return
			}
		}
	}
}

func (m *C05Mon) End(h *Hand, s *pokerface.GameState) {
	if aliveCount(s) >= 2 {
		h.Rep.Inc("showdowns")
		if len(s.Status.Board) != 5 {
			h.Fail("C05/showdown-short-board", "at=close", fmt.Sprintf("showdown between %d players on board %v", aliveCount(s), s.Status.Board))
			return
		}
		if m.runout {
			h.Rep.Inc("runout_showdowns")
		}
	}
}

// =============================================================================================
// C06 — the hand always says what is next, and finishes

type C06Mon struct {
	BaseMon
	stage   int
	phi     int64
	tsb     int
	round   string
	started bool
}

func stageOf(s *pokerface.GameState) int {
	ev, r := s.Status.CurrentEvent, s.Status.Round
	ri, ok := roundIdx[r]
	switch ev {
	case "ReadyRequested":
		if r == "" {
			return 0
		}
		if ok {
			return 3 + 3*ri
		}
	case "AnteRequested":
		if r == "" {
			return 1
		}
	case "BlindsRequested":
		if r == "preflop" {
			return 2
		}
	case "RoundStarted":
		if ok {
			return 4 + 3*ri
		}
	case "RoundClosed":
		if ok {
			return 5 + 3*ri
		}
	case "GameClosed":
		return 15
	}
	return -1
}

func phiOf(s *pokerface.GameState) int64 {
	var phi int64
	for _, p := range s.Players {
		phi += p.StackSize
		if !p.Fold {
			phi++
		}
	}
	return phi
}

func (m *C06Mon) Panic(h *Hand, what string) {
	h.Fail("C06/panic", opCause(h.lastOp()), "the engine panicked: "+what)
}

func (m *C06Mon) Stuck(h *Hand, why string) {
	key := why
	for i, c := range why {
		if c == ':' {
			key = why[:i]
			break
		}
	}
	h.Fail("C06/"+key, opCause(h.lastOp()), why)
}

// the hand is waiting for one thing; an operation that is not that thing was accepted
func (m *C06Mon) UnexpectedAccepted(h *Hand, op Op, ev string) {
	via := "game"
	if op.Seat >= 0 {
		via = "player-handle"
	}
	h.Fail("C06/unexpected-operation-accepted", fmt.Sprintf("op=%s,via=%s", op.Name, via), fmt.Sprintf("the hand was waiting at %s and accepted %+v", ev, op))
}

func (m *C06Mon) Begin(h *Hand) {
	s := h.G.GetState()
	m.stage = stageOf(s)
	m.phi = phiOf(s)
	if m.stage != 0 {
		h.Fail("C06/first-wait", "at=start", fmt.Sprintf("after Start() the hand is at %s round %q, expected ReadyRequested", s.Status.CurrentEvent, s.Status.Round))
	}
}

func (m *C06Mon) Wait(h *Hand, s *pokerface.GameState) {
	h.Rep.Inc("oracle_evaluations")
	closed := s.Status.CurrentEvent == "GameClosed"
	if (s.Result != nil) != closed {
		h.Fail("C06/result-iff-closed", "at="+s.Status.CurrentEvent, fmt.Sprintf("result present=%v at %s", s.Result != nil, s.Status.CurrentEvent))
	}
}

func (m *C06Mon) After(h *Hand, pre *pokerface.GameState, op Op, err error, post *pokerface.GameState) {
	cause := opCause(op)
	if err != nil {
		// refused request: nothing may have moved
		if stageOf(post) != m.stage || phiOf(post) != m.phi {
			h.Fail("C06/refused-but-progressed", cause, fmt.Sprintf("%+v was refused (%v) but the hand moved", op, err))
		}
		return
	}
	h.Rep.Inc("transitions_checked")
	st := stageOf(post)
	if st < 0 {
		h.Fail("C06/not-a-wait-point", cause, fmt.Sprintf("after %s the hand is at event %q round %q", op.Name, post.Status.CurrentEvent, post.Status.Round))
		return
	}
	phi := phiOf(post)
	isTable := op.Name == "ready" || op.Name == "ante" || op.Name == "blinds" || op.Name == "next"
	if st < m.stage || (isTable && st == m.stage) {
		h.Fail("C06/no-progress", cause, fmt.Sprintf("%s moved the hand from stage %d to stage %d (%s %s)", op.Name, m.stage, st, post.Status.CurrentEvent, post.Status.Round))
		return
	}
	if st == 1 && h.C.Ante == 0 {
		h.Fail("C06/ante-without-ante", cause, "antes requested although the ante is zero")
		return
	}
	if pre.Status.CurrentEvent == "ReadyRequested" && pre.Status.Round == "" && h.C.Ante > 0 && st != 1 {
		h.Fail("C06/ante-skipped", cause, fmt.Sprintf("ante %d configured but after readiness the hand is at %s", h.C.Ante, post.Status.CurrentEvent))
		return
	}
	if op.Name == "next" {
		pi, qi := roundIdx[pre.Status.Round], roundIdx[post.Status.Round]
		if post.Status.CurrentEvent != "GameClosed" && qi != pi+1 {
			h.Fail("C06/street-order", cause, fmt.Sprintf("Next() went from %s to %s", pre.Status.Round, post.Status.Round))
			return
		}
		if post.Status.CurrentEvent == "GameClosed" && post.Status.Round != pre.Status.Round {
			h.Fail("C06/street-order", cause, fmt.Sprintf("Next() closed the hand but changed the round from %s to %s", pre.Status.Round, post.Status.Round))
			return
		}
	}
	if phi > m.phi {
		h.Fail("C06/variant-increased", cause, fmt.Sprintf("chips behind + live players went from %d to %d", m.phi, phi))
		return
	}
	if st == m.stage {
		// same betting round: progress must come from chips, a fold, or the lap counter
		i := pre.Status.CurrentPlayer
		up := post.Status.CurrentWager > pre.Status.CurrentWager
		allin := pre.Players[i].StackSize > 0 && post.Players[i].StackSize == 0
		if up || allin {
			m.tsb = 0
			if phi >= m.phi {
				h.Fail("C06/no-progress", cause, "a raise or all-in moved no chips")
				return
			}
		} else {
			if post.Status.CurrentPlayer == i && phi == m.phi {
				// accepted, and nothing moved: not the turn, not a chip, nobody folded
				h.Fail("C06/no-progress", cause+",without-effect", fmt.Sprintf("%+v by seat %d was accepted and left the hand where it was (same seat to act, no chips moved, nobody folded)", op, i))
				return
			}
			m.tsb++
			if m.tsb > len(pre.Players) {
				h.Fail("C06/no-progress", cause, fmt.Sprintf("%d turns without a raise, all-in or round end at a table of %d", m.tsb, len(pre.Players)))
				return
			}
		}
	} else {
		m.tsb = 0
	}
	m.stage, m.phi = st, phi
	h.Rep.Max("longest_hand_operations", int64(len(h.Trace)))
}

func (m *C06Mon) End(h *Hand, s *pokerface.GameState) {
	// "with a settlement result": a result that accounts for the pots of this hand - every chip the
	// pots hold is awarded to somebody (a hand resumed from its JSON state right before the settling
	// Next() has to settle the same pots)
	if s.Result != nil {
		// (the per-pot figures of the result are not reliable as gross shares - DESIGN 6.4 - so what is
		// required is what must hold of any settlement: every seat is listed, and a player who folded and
		// whose chips were all covered by somebody still in the hand has lost exactly those chips)
		h.Rep.Inc("settlement_results_checked")
		if len(s.Result.Players) != len(s.Players) {
			h.Fail("C06/result-does-not-settle", "seats-listed", fmt.Sprintf("the hand closed with a result that lists %d of %d seats", len(s.Result.Players), len(s.Players)))
			return
		}
		var cover int64
		for _, p := range s.Players {
			if !p.Fold && p.Pot+p.Wager > cover {
				cover = p.Pot + p.Wager
			}
		}
		for _, pr := range s.Result.Players {
			if pr.Idx < 0 || pr.Idx >= len(s.Players) {
				continue
			}
			p := s.Players[pr.Idx]
			c := p.Pot + p.Wager
			if p.Fold && c > 0 && c <= cover {
				h.Rep.Inc("folded_contributions_checked")
				if pr.Changed != -c {
					h.Fail("C06/result-does-not-settle", fmt.Sprintf("folded-chips,reloaded=%v", traceHasKind(h, "reload")), fmt.Sprintf("seat %d folded after putting in %d chips, all covered by a player still in the hand, but the result changes its chips by %d\n result=%s", pr.Idx, c, pr.Changed, mustJSON(s.Result)))
					return
				}
			}
		}
	}
	// from then on it accepts nothing
	g := h.G
	before := snapJSON(s)
	ops := []Op{{Name: "ready", Seat: -1}, {Name: "ante", Seat: -1}, {Name: "blinds", Seat: -1}, {Name: "next", Seat: -1}}
	for _, a := range []string{"pass", "fold", "check", "call", "allin", "bet", "raise", "pay"} {
		ops = append(ops, Op{Name: a, Seat: -1, Amt: 10})
		for i := range s.Players {
			ops = append(ops, Op{Name: a, Seat: i, Amt: s.Status.CurrentWager + 20})
		}
	}
	for i := range s.Players {
		ops = append(ops, Op{Name: "payante", Seat: i}, Op{Name: "payblinds", Seat: i})
	}
	for _, op := range ops {
		var err error
		func() {
			defer func() {
				if e := recover(); e != nil {
					h.Fail("C06/closed-panicked", "op="+op.Name, fmt.Sprintf("%+v after GameClosed panicked: %v", op, e))
				}
			}()
			err = applyOp(g, op)
		}()
		if h.Aborted {
			return
		}
		h.Rep.Inc("after_close_probes")
		if err == nil {
			h.Fail("C06/closed-accepts", "op="+op.Name, fmt.Sprintf("%+v after GameClosed returned no error", op))
			return
		}
		if snapJSON(g.GetState()) != before {
			h.Fail("C06/closed-changed", "op="+op.Name, fmt.Sprintf("%+v after GameClosed changed the state", op))
			return
		}
	}
	h.Rep.Seen("nontrivial", traceKey(h))
	h.Rep.HistAdd("hand_length", int64(len(h.Trace)/10*10))
}

// the wager to match, independently of what the engine publishes: the largest wager on the table
func maxWager(s *pokerface.GameState) int64 {
	var m int64
	for _, p := range s.Players {
		if p.Wager > m {
			m = p.Wager
		}
	}
	return m
}

// a getter that rewrites the state (for example the offered actions of the seat to act)
func (m *C04Mon) QueryChanged(h *Hand, what string) {
	h.Fail("C04/state-changed-without-operation", "by=read-only-query", what)
}

func traceHasKind(h *Hand, kind string) bool {
	for _, t := range h.Trace {
		if t.Kind == kind {
			return true
		}
	}
	return false
}

func mustJSON(v interface{}) string {
	b, _ := json.Marshal(v)
	return string(b)
}
