package main

import (
	"encoding/json"
	"fmt"
	"regexp"
	"strings"

	"github.com/weedbox/pokerface"
)

// =============================================================================================
// C01 — chips are conserved

type C01Mon struct {
	BaseMon
	shortForced bool
}

func (m *C01Mon) Begin(h *Hand) {
	for i := 0; i < h.C.N; i++ {
		if h.C.Banks[i] < h.C.Ante+h.C.BlindOwed(i) {
			m.shortForced = true
		}
	}
}

func (m *C01Mon) ledger(h *Hand, s *pokerface.GameState, published bool) {
	cause := opCause(h.lastOp())
	h.Rep.Inc("oracle_evaluations")
	var sumW, sumAll int64
	if len(s.Players) != h.C.N {
		h.Fail("C01/seat-count", cause, fmt.Sprintf("players=%d configured=%d", len(s.Players), h.C.N))
		return
	}
	for _, p := range s.Players {
		if p.Bankroll != h.C.Banks[p.Idx] {
			h.Fail("C01/bankroll-changed", cause, fmt.Sprintf("seat %d bankroll=%d configured=%d", p.Idx, p.Bankroll, h.C.Banks[p.Idx]))
			return
		}
		if p.StackSize < 0 || p.Wager < 0 || p.Pot < 0 {
			h.Fail("C01/negative", cause, fmt.Sprintf("seat %d stack=%d wager=%d pot=%d", p.Idx, p.StackSize, p.Wager, p.Pot))
			return
		}
		if p.Bankroll != p.StackSize+p.Wager+p.Pot {
			h.Fail("C01/identity", cause, fmt.Sprintf("seat %d bankroll=%d != stack %d + wager %d + pot %d", p.Idx, p.Bankroll, p.StackSize, p.Wager, p.Pot))
			return
		}
		sumW += p.Wager
		sumAll += p.Wager + p.Pot
	}
	if s.Status.CurrentRoundPot != sumW {
		h.Fail("C01/roundpot", cause, fmt.Sprintf("current_round_pot=%d but wagers on the table=%d (event %s)", s.Status.CurrentRoundPot, sumW, s.Status.CurrentEvent))
		return
	}
	if published {
		h.Rep.Inc("publication_points")
		var tot int64
		for _, p := range s.Status.Pots {
			tot += p.Total
		}
		if tot != sumAll {
			h.Fail("C01/pots-total", cause, fmt.Sprintf("published pots sum to %d, players have put in %d (event %s)", tot, sumAll, s.Status.CurrentEvent))
			return
		}
	}
}

func (m *C01Mon) Wait(h *Hand, s *pokerface.GameState) {
	ev := s.Status.CurrentEvent
	m.ledger(h, s, ev == "RoundClosed" || ev == "GameClosed")
}

func (m *C01Mon) After(h *Hand, pre *pokerface.GameState, op Op, err error, post *pokerface.GameState) {
	if op.Name == "ante" && err == nil {
		m.ledger(h, post, true)
	}
}

func (m *C01Mon) End(h *Hand, s *pokerface.GameState) {
	cause := "at=close"
	if s.Result == nil {
		h.Fail("C01/no-result", cause, "closed without a result")
		return
	}
	h.Rep.Inc("settlements_checked")
	var sum int64
	seen := map[int]bool{}
	for _, pr := range s.Result.Players {
		if pr.Idx < 0 || pr.Idx >= len(s.Players) || seen[pr.Idx] {
			h.Fail("C01/result-seats", cause, fmt.Sprintf("bad or duplicate seat %d in result", pr.Idx))
			return
		}
		seen[pr.Idx] = true
		ps := s.Players[pr.Idx]
		sum += pr.Changed
		if pr.Final != ps.Bankroll+pr.Changed {
			h.Fail("C01/final", cause, fmt.Sprintf("seat %d final=%d bankroll=%d changed=%d", pr.Idx, pr.Final, ps.Bankroll, pr.Changed))
			return
		}
		if pr.Final < 0 {
			h.Fail("C01/final-negative", cause, fmt.Sprintf("seat %d final=%d", pr.Idx, pr.Final))
			return
		}
		if -pr.Changed > ps.Pot+ps.Wager {
			h.Fail("C01/lost-more-than-put-in", cause, fmt.Sprintf("seat %d changed=%d put in %d", pr.Idx, pr.Changed, ps.Pot+ps.Wager))
			return
		}
	}
	if len(seen) != len(s.Players) {
		h.Fail("C01/result-seats", cause, fmt.Sprintf("result lists %d of %d seats", len(seen), len(s.Players)))
		return
	}
	if sum != 0 {
		h.Fail("C01/zero-sum", cause, fmt.Sprintf("changes sum to %d", sum))
		return
	}
	if len(s.Status.Pots) >= 2 {
		h.Rep.Inc("hands_with_side_pots")
	}
	if m.shortForced {
		h.Rep.Inc("hands_with_short_forced_bet")
	}
	if len(s.Status.Pots) >= 2 || m.shortForced {
		h.Rep.Seen("nontrivial", traceKey(h))
	}
}

// =============================================================================================
// C13 — antes and blinds

type C13Mon struct {
	BaseMon
	checked bool
}

func (m *C13Mon) After(h *Hand, pre *pokerface.GameState, op Op, err error, post *pokerface.GameState) {
	if op.Name == "ante" && err == nil {
		h.Rep.Inc("oracle_evaluations")
		for _, p := range post.Players {
			want := minI64(h.C.Ante, h.C.Banks[p.Idx])
			if p.Pot != want || p.Wager != 0 {
				h.Fail("C13/ante", "after=ante", fmt.Sprintf("seat %d pot=%d wager=%d, expected pot=%d wager=0", p.Idx, p.Pot, p.Wager, want))
				return
			}
		}
		if post.Status.CurrentWager != 0 {
			h.Fail("C13/ante-counts-as-wager", "after=ante", fmt.Sprintf("wager to match %d right after antes", post.Status.CurrentWager))
			return
		}
		// "goes straight to the pot": the pots published after the ante step hold exactly the antes
		var paid, pots int64
		for _, p := range post.Players {
			paid += p.Pot
		}
		for _, p := range post.Status.Pots {
			if p != nil {
				pots += p.Total
			}
		}
		if pots != paid {
			h.Fail("C13/ante-not-in-the-pot", "after=ante", fmt.Sprintf("antes paid %d, published pots hold %d", paid, pots))
		}
	}
}

func (m *C13Mon) classes(h *Hand) {
	c := h.C
	for i := 0; i < c.N; i++ {
		b, owed := c.Banks[i], c.BlindOwed(i)
		if c.Ante > 0 {
			switch {
			case b < c.Ante:
				h.Rep.Inc("class_stack_below_ante")
			case b == c.Ante:
				h.Rep.Inc("class_stack_equals_ante")
			}
		}
		if owed > 0 {
			switch {
			case b > c.Ante && b < c.Ante+owed:
				h.Rep.Inc("class_short_blind")
			case b == c.Ante+owed:
				h.Rep.Inc("class_exact_blind")
			case b == c.Ante+owed+1:
				h.Rep.Inc("class_blind_plus_one")
			}
			if hasStr(c.Positions(i), "dealer") && c.Dl > 0 && owed == c.Dl && b < c.Ante+owed {
				h.Rep.Inc("class_short_dealer_blind")
			}
		}
	}
	if c.SB == 0 && c.Dl == 0 && c.BB > 0 {
		h.Rep.Inc("class_bb_only")
	}
	if c.SB == 0 && c.BB == 0 && c.Dl > 0 {
		h.Rep.Inc("class_dealer_blind_only")
	}
	if c.DeadSB {
		h.Rep.Inc("class_dead_sb")
	}
	if c.N == 2 {
		h.Rep.Inc("class_heads_up")
	}
}

func (m *C13Mon) Wait(h *Hand, s *pokerface.GameState) {
	if m.checked || s.Status.Round != "preflop" || s.Status.CurrentEvent == "BlindsRequested" {
		return
	}
	// first state of the hand that is after the blind phase
	m.checked = true
	c := h.C
	h.Rep.Inc("oracle_evaluations")
	h.Rep.Inc("blind_phases_checked")
	m.classes(h)
	cause := fmt.Sprintf("blinds=%s", blindShape(c))
	var maxW int64
	for _, p := range s.Players {
		ante := minI64(c.Ante, c.Banks[p.Idx])
		if p.Pot != ante {
			h.Fail("C13/ante", cause, fmt.Sprintf("seat %d pot=%d expected ante %d", p.Idx, p.Pot, ante))
			return
		}
		owed := minI64(c.BlindOwed(p.Idx), c.Banks[p.Idx]-ante)
		if p.Wager != owed {
			h.Fail("C13/blind", cause, fmt.Sprintf("seat %d (positions %v) wager=%d expected %d at %s", p.Idx, p.Positions, p.Wager, owed, s.Status.CurrentEvent))
			return
		}
		if p.Wager > maxW {
			maxW = p.Wager
		}
	}
	if s.Status.CurrentWager != maxW {
		h.Fail("C13/wager-to-match", cause, fmt.Sprintf("wager to match %d, largest blind posted %d", s.Status.CurrentWager, maxW))
		return
	}
	want := c.BB
	if want == 0 {
		want = c.Dl
	}
	if s.Status.PreviousRaiseSize != want {
		h.Fail("C13/min-raise", cause, fmt.Sprintf("minimum raise %d expected %d", s.Status.PreviousRaiseSize, want))
		return
	}
	h.Rep.Seen("nontrivial", fmt.Sprint(c.N, c.DealerIdx, c.Ante, c.SB, c.BB, c.Dl, c.DeadSB, c.Banks))
}

func blindShape(c *Cfg) string {
	f := func(x int64) string {
		if x > 0 {
			return "+"
		}
		return "0"
	}
	return "d" + f(c.Dl) + "s" + f(c.SB) + "b" + f(c.BB)
}

// =============================================================================================
// C14 — dealing

type C14Mon struct {
	BaseMon
	prevBoard []string
	prevHole  [][]string
	earlyEnd  bool
}

func (m *C14Mon) Begin(h *Hand) {
	h.Rep.Inc("shuffles_checked")
	if !sameMultiset(h.Shuffled, baseDeck(h.C.Short)) {
		h.Fail("C14/shuffle", "at=start", fmt.Sprintf("deck after Start() is not a permutation of the configured deck: %v", h.Shuffled))
	}
}

func (m *C14Mon) Wait(h *Hand, s *pokerface.GameState) {
	c := h.C
	cause := opCause(h.lastOp())
	h.Rep.Inc("oracle_evaluations")
	if strings.Join(s.Meta.Deck, ",") != strings.Join(c.Deck, ",") {
		h.Fail("C14/deck-changed", cause, "the deck changed during the hand")
		return
	}
	pos := s.Status.CurrentDeckPosition
	if pos < 0 || pos > len(c.Deck) {
		h.Fail("C14/cursor", cause, fmt.Sprintf("deck position %d", pos))
		return
	}
	dealt := []string{}
	for _, p := range s.Players {
		dealt = append(dealt, p.HoleCards...)
		want := 0
		if s.Status.Round != "" {
			want = c.Hole
		}
		if len(p.HoleCards) != want {
			h.Fail("C14/hole-count", cause, fmt.Sprintf("seat %d has %d hole cards, expected %d (round %q)", p.Idx, len(p.HoleCards), want, s.Status.Round))
			return
		}
	}
	dealt = append(dealt, s.Status.Board...)
	dealt = append(dealt, s.Status.Burned...)
	if !sameMultiset(dealt, c.Deck[:pos]) {
		h.Fail("C14/consumed-top", cause, fmt.Sprintf("hole+board+burned=%v, consumed top of deck=%v", sortedCopy(dealt), sortedCopy(c.Deck[:pos])))
		return
	}
	wantBoard, ok := map[string]int{"": 0, "preflop": 0, "flop": 3, "turn": 4, "river": 5}[s.Status.Round]
	if !ok {
		h.Fail("C14/round", cause, "unknown round "+s.Status.Round)
		return
	}
	wantBurn := map[int]int{0: 0, 3: 1, 4: 2, 5: 3}[wantBoard]
	if len(s.Status.Board) != wantBoard || len(s.Status.Burned) != wantBurn {
		h.Fail("C14/board-burn", cause, fmt.Sprintf("round %s board=%v burned=%v", s.Status.Round, s.Status.Board, s.Status.Burned))
		return
	}
	if len(m.prevBoard) > len(s.Status.Board) || strings.Join(s.Status.Board[:len(m.prevBoard)], ",") != strings.Join(m.prevBoard, ",") {
		h.Fail("C14/board-mutated", cause, fmt.Sprintf("board was %v now %v", m.prevBoard, s.Status.Board))
		return
	}
	m.prevBoard = append([]string{}, s.Status.Board...)
	if m.prevHole != nil {
		for i, p := range s.Players {
			if len(m.prevHole[i]) > 0 && strings.Join(m.prevHole[i], ",") != strings.Join(p.HoleCards, ",") {
				h.Fail("C14/hole-mutated", cause, fmt.Sprintf("seat %d hole cards were %v now %v", i, m.prevHole[i], p.HoleCards))
				return
			}
		}
	}
	m.prevHole = make([][]string, len(s.Players))
	for i, p := range s.Players {
		m.prevHole[i] = append([]string{}, p.HoleCards...)
	}
}

// Stuck: the expected step was refused. What the refusal left behind is looked at like any other state
// (a street that was announced but not dealt shows here: round "river" with a four-card board)
func (m *C14Mon) Stuck(h *Hand, why string) {
	h.Rep.Inc("hands_stuck")
	if h.G != nil && h.G.GetState() != nil && strings.HasPrefix(why, "expected-step-refused") {
		m.Wait(h, h.G.GetState())
	}
}

func (m *C14Mon) End(h *Hand, s *pokerface.GameState) {
	// cards once dealt never change - also not when the table starts its next hand from the same options
	// value (the same deck slice, shuffled in place by Start) while this hand's state is still around
	if h.Opts != nil && h.spare == nil && h.C.Reuse == 0 {
		dealt := func() string {
			l := []interface{}{s.Status.Board, s.Status.Burned}
			for _, p := range s.Players {
				l = append(l, p.HoleCards)
				if p.Combination != nil {
					l = append(l, p.Combination.Cards)
				}
			}
			b, _ := json.Marshal(l)
			return string(b)
		}
		before := dealt()
		nxt := pokerface.NewGame(h.Opts)
		if nxt.Start() == nil {
			nxt.ReadyForAll()
			h.Rep.Inc("next_hands_started_from_the_same_options")
			if after := dealt(); after != before {
				h.Fail("C14/dealt-cards-changed", "after=next-hand-on-same-options", fmt.Sprintf("the finished hand's dealt cards changed when another hand was started from the same options value:\n before=%s\n after =%s", before, after))
				return
			}
		}
	}
	switch {
	case len(s.Status.Board) < 5:
		h.Rep.Inc("hands_early_end")
	case movableCount(s) < 2:
		h.Rep.Inc("hands_allin_runout")
	default:
		h.Rep.Inc("hands_full_showdown")
	}
	h.Rep.Seen("nontrivial", strings.Join(h.C.Deck[:s.Status.CurrentDeckPosition], "")+fmt.Sprint(h.C.N, h.C.Hole))
}

// =============================================================================================
// C15 — views

var cardRe = regexp.MustCompile(`"[SHDC][2-9TJQKA]"`)

type C15Mon struct {
	BaseMon
	every int
	tick  int
}

func normView(gs *pokerface.GameState) string {
	if len(gs.Meta.Deck) == 0 {
		gs.Meta.Deck = nil
	}
	if len(gs.Status.Burned) == 0 {
		gs.Status.Burned = nil
	}
	for _, p := range gs.Players {
		if len(p.HoleCards) == 0 {
			p.HoleCards = nil
		}
	}
	b, _ := json.Marshal(gs)
	return string(b)
}

func (m *C15Mon) Wait(h *Hand, s *pokerface.GameState) {
	m.tick++
	ev := s.Status.CurrentEvent
	if m.every > 1 && m.tick%m.every != 0 && ev != "GameClosed" {
		return
	}
	closed := ev == "GameClosed"
	h.Rep.Inc("states_viewed")
	live := -1
	if !closed && len(s.Players) > 0 {
		if h.ReplayTrace == nil {
			if h.R.Intn(50) == 0 {
				live = h.R.Intn(len(s.Players))
				h.Trace = append(h.Trace, TraceStep{Op: Op{Name: "liveview", Seat: live}, Kind: "probe"})
			}
		} else if k := len(h.ReplayTrace) - 1; k >= 0 && h.ReplayTrace[k].Op.Name == "liveview" && h.replayPos >= k {
			live = h.ReplayTrace[k].Op.Seat
		}
	}
	if live >= 0 && live < len(s.Players) {
		// a view prepared on the engine's own state object (the call is destructive, so the hand ends
		// here): what the viewer can reach in memory - his own lists re-sliced to capacity included - must
		// not hold anybody else's cards
		v := live
		allowed := map[string]bool{}
		for _, x := range s.Status.Board {
			allowed[x] = true
		}
		for _, x := range s.Players[v].HoleCards {
			allowed[x] = true
		}
		s.AsPlayer(v)
		h.Rep.Inc("views_on_the_live_state_object")
		h.Rep.Inc("oracle_evaluations")
		lists := [][]string{s.Meta.Deck, s.Status.Burned, s.Status.Board}
		for _, p := range s.Players {
			lists = append(lists, p.HoleCards)
			if p.Combination != nil {
				lists = append(lists, p.Combination.Cards)
			}
		}
		for _, l := range lists {
			for _, x := range l[:cap(l)] {
				if len(x) == 2 && !allowed[x] && cardRe.MatchString(`"`+x+`"`) {
					h.Fail("C15/leak-in-backing-array", "viewer=seat,live-state-object", fmt.Sprintf("AsPlayer(%d) on the game's own state object at %s: hidden card %s is still reachable by re-slicing a list of the view to its capacity", v, ev, x))
					return
				}
			}
		}
		h.Aborted = true
		return
	}
	nfold := 0
	for _, p := range s.Players {
		if p.Fold {
			nfold++
		}
	}
	if closed && nfold > 0 && aliveCount(s) >= 2 {
		h.Rep.Inc("class_closed_showdown_with_folds")
	}
	if closed && aliveCount(s) == 1 {
		h.Rep.Inc("class_closed_by_fold")
	}
	if !closed && len(s.Status.Burned) > 0 {
		h.Rep.Inc("class_open_with_burned_cards")
	}
	// viewers: the observer (-1), every seat, and player views asked for an index that is not in the
	// hand (a table member who is not dealt in has game index -1): these must see no more than an observer
	n := len(s.Players)
	viewers := []int{-1}
	for v := 0; v < n; v++ {
		viewers = append(viewers, v)
	}
	viewers = append(viewers, -100, -101, -102) // AsPlayer(-1), AsPlayer(n), AsPlayer(n+5)
	for _, v := range viewers {
		cl := cloneGS(s)
		exp := cloneGS(s)
		who := "observer"
		switch {
		case v == -1:
			cl.AsObserver()
		case v <= -100:
			idx := map[int]int{-100: -1, -101: n, -102: n + 5}[v]
			cl.AsPlayer(idx)
			who = fmt.Sprintf("non-participant(AsPlayer(%d))", idx)
			h.Rep.Inc("non_participant_views")
			v = -1
		default:
			cl.AsPlayer(v)
			who = fmt.Sprintf("seat%d", v)
		}
		h.Rep.Inc("oracle_evaluations")
		cause := fmt.Sprintf("viewer=%s,closed=%v", strings.SplitN(strings.TrimRight(who, "0123456789"), "(", 2)[0], closed)
		b, _ := json.Marshal(cl)
		allowed := map[string]bool{}
		for _, x := range s.Status.Board {
			allowed[x] = true
		}
		for _, p := range s.Players {
			if p.Idx == v || (closed && !p.Fold) {
				for _, x := range p.HoleCards {
					allowed[x] = true
				}
			}
		}
		for _, mm := range cardRe.FindAllString(string(b), -1) {
			if !allowed[mm[1:3]] {
				h.Fail("C15/leak", cause, fmt.Sprintf("view of %s at %s contains hidden card %s", who, ev, mm))
				return
			}
		}
		// what a consumer in the same process can reach: redacted slices must not keep the hidden cards
		// in their backing arrays (re-slicing to capacity)
		lists := [][]string{cl.Meta.Deck, cl.Status.Burned, cl.Status.Board}
		for _, p := range cl.Players {
			lists = append(lists, p.HoleCards)
			if p.Combination != nil {
				lists = append(lists, p.Combination.Cards)
			}
		}
		for _, l := range lists {
			for _, x := range l[:cap(l)] {
				if len(x) == 2 && !allowed[x] && cardRe.MatchString(`"`+x+`"`) {
					h.Fail("C15/leak-in-backing-array", cause, fmt.Sprintf("view of %s at %s: hidden card %s is still reachable by re-slicing a redacted list to its capacity", who, ev, x))
					return
				}
			}
		}
		for _, p := range cl.Players {
			if p.Idx == v {
				continue
			}
			if (!closed || p.Fold) && p.Combination != nil {
				h.Fail("C15/evaluation-leak", cause, fmt.Sprintf("view of %s at %s contains the hand evaluation of seat %d (fold=%v)", who, ev, p.Idx, p.Fold))
				return
			}
		}
		// everything else unchanged: apply the stated redaction to a copy and compare
		exp.Meta.Deck = nil
		exp.Status.Burned = nil
		for _, p := range exp.Players {
			if p.Idx == v {
				continue
			}
			if !closed || p.Fold {
				p.HoleCards = nil
				p.Combination = nil
			}
		}
		if a, e := normView(cl), normView(exp); a != e {
			h.Fail("C15/public-changed", cause, fmt.Sprintf("view of %s at %s differs from the state outside the redacted fields:\n view=%s\n want=%s", who, ev, a, e))
			return
		}
	}
	// composed views: a state that already went through one view is prepared for another viewer (a
	// server that derives the observer copy from a player copy); the second viewer must still see
	// nothing hidden. Also: snapshots whose players carry no evaluation object (written by another
	// service) must be redacted like any other.
	if n > 0 {
		allowedFor := func(v int) map[string]bool {
			a := map[string]bool{}
			for _, x := range s.Status.Board {
				a[x] = true
			}
			for _, p := range s.Players {
				if p.Idx == v || (closed && !p.Fold) {
					for _, x := range p.HoleCards {
						a[x] = true
					}
				}
			}
			return a
		}
		i, j := h.R.Intn(n), h.R.Intn(n)
		type comp struct {
			name  string
			apply func(gs *pokerface.GameState)
			final int
		}
		comps := []comp{
			{fmt.Sprintf("AsPlayer(%d) then AsObserver()", i), func(gs *pokerface.GameState) { gs.AsPlayer(i); gs.AsObserver() }, -1},
			{fmt.Sprintf("AsPlayer(%d) then AsPlayer(%d)", i, j), func(gs *pokerface.GameState) { gs.AsPlayer(i); gs.AsPlayer(j) }, j},
			{fmt.Sprintf("AsObserver() then AsPlayer(%d)", j), func(gs *pokerface.GameState) { gs.AsObserver(); gs.AsPlayer(j) }, j},
			{"no evaluation objects, AsObserver()", func(gs *pokerface.GameState) {
				for _, p := range gs.Players {
					p.Combination = nil
				}
				gs.AsObserver()
			}, -1},
			{fmt.Sprintf("no evaluation objects, AsPlayer(%d)", j), func(gs *pokerface.GameState) {
				for _, p := range gs.Players {
					p.Combination = nil
				}
				gs.AsPlayer(j)
			}, j},
		}
		for _, c := range comps {
			cl := cloneGS(s)
			c.apply(cl)
			h.Rep.Inc("oracle_evaluations")
			h.Rep.Inc("composed_views")
			b, _ := json.Marshal(cl)
			al := allowedFor(c.final)
			for _, mm := range cardRe.FindAllString(string(b), -1) {
				if !al[mm[1:3]] {
					h.Fail("C15/leak", fmt.Sprintf("viewer=composed,closed=%v", closed), fmt.Sprintf("state prepared by %s at %s contains hidden card %s", c.name, ev, mm))
					return
				}
			}
		}
	}
	h.Rep.Seen("nontrivial", fmt.Sprint(ev, s.Status.Round, nfold, len(s.Players))+strings.Join(s.Status.Board, ""))
}
