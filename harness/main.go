package main

import (
	"encoding/json"
	"flag"
	"fmt"
	"os"
	"path/filepath"
	"strconv"
	"strings"
	"time"
)

var checks = map[string]func(*RunCtx) int{
	"C01": checkC01, "C02": checkC02, "C03": checkC03, "C04": checkC04, "C05": checkC05,
	"C06": checkC06, "C07": checkC07, "C08": checkC08, "C09": checkC09, "C10": checkC10,
	"C11": checkC11, "C12": checkC12, "C13": checkC13, "C14": checkC14, "C15": checkC15,
	"C16": checkC16, "C17": checkC17, "C18": checkC18, "C19": checkC19, "C20": checkC20,
}

func envInt(name string, def int64) int64 {
	if v := os.Getenv(name); v != "" {
		if n, err := strconv.ParseInt(v, 10, 64); err == nil {
			return n
		}
	}
	return def
}

func usage() int {
	fmt.Fprintln(os.Stderr, "usage: vp check <ID> [--tier quick|thorough] [--seed N] | vp replay <file> | vp worker | vp c07race <seed> <n> | vp c18race <seed> <n>")
	return 2
}

func main() {
	os.Exit(realMain())
}

func realMain() int {
	if len(os.Args) < 2 {
		return usage()
	}
	switch os.Args[1] {
	case "worker":
		return workerMain()
	case "c07race", "c18race", "c09race", "c06race":
		if len(os.Args) < 4 {
			return usage()
		}
		seed, _ := strconv.ParseInt(os.Args[2], 10, 64)
		n, _ := strconv.Atoi(os.Args[3])
		if os.Args[1] == "c07race" {
			return c07RaceMain(seed, n)
		}
		if os.Args[1] == "c09race" {
			return c09RaceMain(seed, n)
		}
		if os.Args[1] == "c06race" {
			return handsRaceMain(seed, n)
		}
		return c18RaceMain(seed, n)
	case "replay":
		if len(os.Args) < 3 {
			return usage()
		}
		return replayMain(os.Args[2])
	case "check":
		if len(os.Args) < 3 {
			return usage()
		}
		id := os.Args[2]
		fs := flag.NewFlagSet("check", flag.ContinueOnError)
		tier := fs.String("tier", os.Getenv("VERIF_TIER"), "quick|thorough")
		seed := fs.Int64("seed", envInt("VERIF_SEED", 20260928), "seed")
		workers := fs.Int("workers", int(envInt("VERIF_WORKERS", int64(defaultWorkers()))), "workers")
		if err := fs.Parse(os.Args[3:]); err != nil {
			return 2
		}
		if *tier != "thorough" {
			*tier = "quick"
		}
		fn, ok := checks[id]
		if !ok {
			fmt.Fprintln(os.Stderr, "unknown property", id)
			return 2
		}
		vdir := os.Getenv("VERIF_DIR")
		if vdir == "" {
			vdir = "/verif"
		}
		ctx := &RunCtx{Prop: id, Tier: *tier, Seed: *seed, Workers: *workers, VerifDir: vdir, Start: time.Now()}
		ctx.EvidenceDir = os.Getenv("VERIF_EVIDENCE_DIR")
		if ctx.EvidenceDir == "" {
			ctx.EvidenceDir = filepath.Join(vdir, "evidence")
		}
		ctx.ReplayDir = os.Getenv("VERIF_REPLAY_DIR")
		if ctx.ReplayDir == "" {
			ctx.ReplayDir = filepath.Join(vdir, "replays")
		}
		return fn(ctx)
	}
	return usage()
}

// replay re-executes a recorded violation against the current /repo
func replayMain(path string) int {
	b, err := os.ReadFile(path)
	if err != nil {
		fmt.Fprintln(os.Stderr, err)
		return 2
	}
	var f struct {
		Violation struct {
			Prop      string          `json:"property"`
			Rule      string          `json:"rule"`
			Signature string          `json:"signature"`
			Msg       string          `json:"message"`
			Kind      string          `json:"kind"`
			Case      json.RawMessage `json:"case"`
			Seed      int64           `json:"seed"`
		} `json:"violation"`
		Tier string `json:"tier"`
	}
	if err := json.Unmarshal(b, &f); err != nil {
		fmt.Fprintln(os.Stderr, "bad replay file:", err)
		return 2
	}
	v := f.Violation
	fmt.Printf("replaying %s (%s)\n  recorded: %s\n", v.Signature, v.Kind, v.Msg)
	rep := NewReport()
	switch v.Kind {
	case "hand":
		var hc struct {
			Cfg   *Cfg        `json:"cfg"`
			Trace []TraceStep `json:"trace"`
		}
		if err := json.Unmarshal(v.Case, &hc); err != nil || hc.Cfg == nil {
			fmt.Fprintln(os.Stderr, "bad hand case:", err)
			return 2
		}
		h := &Hand{Prop: v.Prop, C: hc.Cfg, R: caseRand(v.Seed, 0, 0), Rep: rep, Seed: v.Seed, ReplayTrace: hc.Trace, Replaying: true}
		mon := monitorFor(v.Prop)
		if mon == nil {
			fmt.Fprintln(os.Stderr, "no hand monitor for", v.Prop)
			return 2
		}
		playHand(h, mon)
	case "potvec":
		var pv PotVec
		if err := json.Unmarshal(v.Case, &pv); err != nil {
			fmt.Fprintln(os.Stderr, "bad vector:", err)
			return 2
		}
		if v.Prop == "C16" {
			checkPotVecC16("C16", &pv, rep, v.Seed, 0)
		} else {
			checkPotVecC02("C02", &pv, rep, v.Seed, 0)
		}
	case "seats":
		var sc SeatCase
		if err := json.Unmarshal(v.Case, &sc); err != nil {
			fmt.Fprintln(os.Stderr, "bad seat case:", err)
			return 2
		}
		// "join any seat" picks from a Go map: the recorded picks are in the history, and the replay is
		// repeated until the manager makes the same picks (or, for histories recorded without them, a
		// fixed number of times)
		for try := 0; try < 20000; try++ {
			s := newSeatRun(v.Prop, []string{v.Prop}, sc.Max, rep, v.Seed, 0, caseRand(v.Seed, 0, 0))
			runSeatHistory(s, parseSeatHistory(sc.Text))
			if len(rep.Viol) > 0 || (!s.diverged && strings.Contains(sc.Text, ">")) {
				break
			}
			if !strings.Contains(sc.Text, "J-1") {
				break
			}
		}
	case "world":
		var wc WorldCase
		if err := json.Unmarshal(v.Case, &wc); err != nil {
			fmt.Fprintln(os.Stderr, "bad world case:", err)
			return 2
		}
		w := newWorld(v.Prop, []string{v.Prop}, wc.Max, wc.Min, rep, v.Seed, 0, caseRand(v.Seed, 0, 0))
		replayWorld(w, wc.History)
	default:
		fmt.Printf("  kind %q is replayed by re-running the check with the recorded seed: ./check %s %s (VERIF_SEED=%d)\n  recorded case: %s\n", v.Kind, v.Prop, f.Tier, v.Seed, string(v.Case))
		return 0
	}
	if len(rep.Viol) == 0 {
		fmt.Println("  not reproduced on the current tree")
		return 0
	}
	for sig, vs := range rep.Viol {
		fmt.Printf("  reproduced: %s\n    %s\n", sig, vs[0].Msg)
		if c, err := json.Marshal(vs[0].Case); err == nil && v.Kind == "seats" {
			fmt.Printf("    history as replayed: %s\n", c)
		}
	}
	return 1
}

func monitorFor(prop string) Monitor {
	switch prop {
	case "C01":
		return &C01Mon{}
	case "C02":
		return &C02Mon{}
	case "C04":
		return newC04Mon(1)
	case "C05":
		return &C05Mon{}
	case "C06":
		return &C06Mon{}
	case "C07":
		return &C07Mon{}
	case "C10":
		return &C10Mon{}
	case "C11":
		return &C11Mon{}
	case "C12":
		return &C12Mon{}
	case "C13":
		return &C13Mon{}
	case "C14":
		return &C14Mon{}
	case "C15":
		return &C15Mon{every: 1}
	case "C16":
		return &C16Mon{}
	}
	return nil
}
