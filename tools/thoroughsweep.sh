#!/bin/bash
# thoroughsweep.sh <seed>... : every check's thorough tier at each seed; one line per check
cd "$(dirname "$0")/.."
for seed in "$@"; do
  for id in C01 C02 C03 C04 C05 C06 C07 C08 C09 C10 C11 C12 C13 C14 C15 C16 C17 C18 C19 C20; do
    s=$(date +%s)
    VERIF_SEED=$seed ./check $id thorough > /tmp/tsweep.$$.log 2>&1; rc=$?
    e=$(date +%s)
    echo "seed=$seed $id rc=$rc $((e-s))s $(grep -m2 'signature=\|INCONCLUSIVE' /tmp/tsweep.$$.log | tr '\n' ' ' | cut -c1-220)"
    [ $rc -ne 0 ] && cp /tmp/tsweep.$$.log /tmp/tsweep.$id.$seed.log
  done
done
rm -f /tmp/tsweep.$$.log
