#!/usr/bin/env python3
"""Writes /verif/MANIFEST.json (kept as a generator so that the twenty entries stay consistent)."""
import json, subprocess

def sh(c):
    return subprocess.run(c, shell=True, capture_output=True, text=True).stdout.strip()

hook_commits = [l.split()[0] for l in sh("git -C /repo log --format='%h %s' | grep -i 'verif hook'").splitlines()]

LEVELS = {
 "C01": ("exploration", "chip-ledger invariant monitor on every state of generated hands + settlement ledger at close", "4.1",
         "Runtime monitor: the ledger (bankroll = behind + wager + pot, nothing negative, round pot = wagers, published pots = chips put in, zero-sum result) is asserted on the real engine's state after every operation of thousands of generated hands incl. hostile amounts. Held-on-observed, not a proof; exploration is the right level because the property is a state invariant whose violations show up on reachable states."),
 "C02": ("exploration", "reference side-pot settlement (independent hand evaluator) vs Result, direct vectors + real play", "4.2",
         "Reference-model monitor: an independent nested-pot settlement with an independent hand evaluator bounds every player's gross collection; small vector domain enumerated completely in thorough, random vectors and real showdowns otherwise."),
 "C03": ("exploration", "exhaustive differential against an independent 5-card evaluator (total order over tie classes), both variants evaluated concurrently after a mixed-use warm-up", "4.3",
         "Exhaustive observation: all 2,598,960 + 376,992 hands under both ranking tables are run through the real evaluator and grouped by an independent reference key; one score per class and strictly increasing scores over the sorted classes is equivalent to the pairwise statement. exhaustive: true."),
 "C04": ("exploration", "turn-order shadow + refused-without-effect probes at every wait point", "4.4",
         "Runtime monitor with negative probing: at every wait point of generated hands every unexpected operation on every seat is actually called on the live game and must fail leaving the JSON state identical; the seat asked is compared with a turn-order shadow."),
 "C05": ("exploration", "round-closure shadow monitor (matched, had-a-turn, one-lap bound, run-out, early end)", "4.5",
         "Runtime monitor over RoundStarted/RoundClosed/Next transitions of generated hands with raise / short all-in / fold mixes."),
 "C06": ("exploration", "wait-point automaton + strictly decreasing variant + closed-accepts-nothing + invalid-start grid on fresh and pooled objects; an engine call that does not return is confirmed by an isolated replay; Go race detector on independent hands", "4.6",
         "Runtime monitor; termination is restated as bounded progress: a lexicographic variant must strictly decrease on every observed accepted operation (finite runs cannot decide 'every path is finite')."),
 "C07": ("fault_enumeration", "lock-step differential vs JSON-rebuilt game / NativeBackend / fresh OS process at every wait point; Go race detector on a shared backend", "4.7",
         "Fault = loss of everything not in the JSON (restart / backend hop), injected at every wait point of every explored history; followers must agree with the in-memory game after every operation. The shared-backend workload runs under the Go race detector."),
 "C08": ("exploration", "position oracle after every successful Next() + armed deal-in watch + hand-by-hand waiting watch + closed-seat invariant + engine hand-off; subset oracle for Next() under a seat-toggling goroutine", "4.8",
         "Runtime monitor over random seat histories and targeted join-between scenarios."),
 "C09": ("exploration", "tournament world ledger at quiescent points (read-only hook on the waiting queue), also with fault injection at the host callbacks and re-entries before the bust is reported; concurrent world under the Go race detector", "4.9",
         "Conservation monitor: every live player in exactly one place, counters equal real numbers, refusals without effect; checked after every completed step of random tournament histories."),
 "C10": ("exploration", "brute-force best admissible selection with the independent evaluator", "4.10",
         "Reference-model monitor on every seat and street of generated hands plus direct draws through the engine's publication path."),
 "C11": ("exploration", "situation->offered-actions table + per-action effect oracle", "4.11",
         "Runtime monitor at every RoundStarted wait point and after every chosen action."),
 "C12": ("exploration", "shadow previous-raise-size + exact/undersized/refused raise oracle + hostile 64-bit amounts", "4.12",
         "Runtime monitor with amount fuzzing on every offered bet/raise."),
 "C13": ("exploration", "forced-bet oracle on a systematic boundary grid + random configurations", "4.13",
         "Runtime monitor evaluated on the first state after the blind phase (so a skipped phase is seen)."),
 "C14": ("exploration", "deck-ledger invariant after every operation (also on the state a refused step leaves behind); shuffle is a permutation", "4.14",
         "Invariant monitor on pinned decks; ShuffleCards checked directly on random decks."),
 "C15": ("exploration", "taint scan of the whole redacted JSON + equality with the stated redaction", "4.15",
         "Runtime monitor over every viewer of every reachable state of generated hands."),
 "C16": ("exploration", "reference nested-pot partition vs GetPots(), direct vectors + every publication of real play", "4.16",
         "Reference-model monitor; small vector domain enumerated completely in thorough."),
 "C17": ("exploration", "button oracle on every Next() with the pre-state playable set; refusal only when fewer than two can play; the same under a seat-toggling goroutine", "4.17",
         "Runtime monitor over random seat histories; a panic is a violation."),
 "C18": ("exploration", "seat ledger under recover(); porcupine linearizability of recorded concurrent histories; hopper clients (counting argument); Go race detector", "4.18",
         "Sequential ledger monitor, offline linearizability check (porcupine) of concurrent Join/Leave/Count histories recorded at the client boundary, and the race detector on the same workload at several GOMAXPROCS."),
 "C19": ("exploration", "capacity monitor inside requestTableFn/assignPlayersFn/SyncState results, judged on what is asked, also with fault injection at the host callbacks; concurrent world under the Go race detector", "4.19",
         "Runtime monitor inside the tournament world callbacks over a settings grid."),
 "C20": ("exploration", "sweep-to-fixpoint driver with bounded sweep count under random and adversarial sync orders, also after injected host-callback faults have stopped; break returns everyone and never empties the only table", "4.20",
         "Convergence restated as bounded progress: from every reached world state, sweeps must reach a quiet sweep within tables+8 sweeps."),
}

checks = []
for pid in sorted(LEVELS):
    level, technique, ref, text = LEVELS[pid]
    checks.append({
        "property_id": pid,
        "quick_cmd": f"./check {pid} quick",
        "thorough_cmd": f"./check {pid} thorough",
        "evidence_file": f"/verif/evidence/{pid}.json",
        "replay_cmd_template": "./check --replay {path}",
        "engine": "vp-harness",
        "level_claimed": {"category": level, "text": text, "design_ref": f"DESIGN.md section {ref}"},
        "level_note": "Trusted base: the Go toolchain, the harness reference models (harness/ref*.go, independent of /repo), the Go race detector (C06, C07, C09, C18, C19, C20) and porcupine v1.3.0 (C18). Verdicts are held-on-observed: they cover exactly the executions counted in the evidence file.",
        "technique": "runtime monitoring: " + technique,
    })

manifest = {
    "version": 1,
    "setup_cmd": "./check --build",
    "hooks": {
        "guard": "verif",
        "enable": "go build -tags verif (the harness module replaces github.com/weedbox/pokerface with /repo, so /repo's working tree is compiled into every check)",
        "baseline_off_cmd": "cd /repo && GOFLAGS=-mod=mod GOPROXY=off GOSUMDB=off go test -vet=off -count=1 ./combination ./pot ./regulator ./settlement ./testcases",
        "source_commits": hook_commits,
        "add_only": True,
    },
    "engines": [{
        "name": "vp-harness",
        "path": "/verif/harness",
        "serves_properties": sorted(LEVELS),
        "kind_free_text": "Go program linked against /repo: workload generators, reference models and one runtime monitor per property; -race child binary for C06, C07, C09, C18, C19, C20; porcupine for C18",
    }],
    "checks": checks,
    "not_applicable": [],
    "notes": "All twenty properties are decided by runtime monitors observing executions of the real code. Exit codes: 0 held, 1 violation (VIOLATION lines), 2 inconclusive (watchdog, or a required situation class never observed). known_findings.json lists repaired defects (status fixed: suppress nothing).",
}
json.dump(manifest, open("/verif/MANIFEST.json", "w"), indent=1)
print("MANIFEST.json written,", len(checks), "checks, hooks:", hook_commits)
