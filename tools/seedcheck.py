#!/usr/bin/env python3
"""seedcheck.py <ID> <A|B> [--src DIR] [--tier quick|thorough] [--props C01,C02]
Confirms a seeded change (compiles, stable suite passes, demo fails with it and passes without) on scratch
copies of /repo under /tmp and runs the check(s) against the changed copy via VERIF_REPO."""
import os, sys, subprocess, shutil, re, json, hashlib, time
ROOT = os.path.dirname(os.path.dirname(os.path.abspath(__file__)))
ENV = dict(os.environ, GOFLAGS="-mod=mod", GOPROXY="off", GOSUMDB="off", GOTOOLCHAIN="local")
STABLE = "go test -vet=off -count=1 ./combination ./pot ./regulator ./settlement ./testcases"
def run(cmd, cwd=None, env=None, timeout=3600):
    p = subprocess.run(cmd, shell=True, cwd=cwd, env=env or ENV, capture_output=True, text=True, timeout=timeout)
    return p.returncode, p.stdout + p.stderr
def main():
    a = sys.argv[1:]
    pid, x = a[0], a[1]
    src, tier, props = f"/tmp/seed/out/{pid}", "quick", [pid]
    i = 2
    while i < len(a):
        if a[i] == "--src": src = a[i+1]
        if a[i] == "--tier": tier = a[i+1]
        if a[i] == "--props": props = a[i+1].split(",")
        i += 2
    patch = os.path.join(src, f"patch{x}.diff")
    if not os.path.exists(patch):
        patch = os.path.join(src, "patch.diff")
    demo = os.path.join(src, f"demo{x}_test.go")
    if not os.path.exists(demo):
        cands = [f for f in os.listdir(src) if f.startswith(f"demo{x}")]
        demo = os.path.join(src, cands[0]) if cands else None
    base = f"/tmp/seedchk{abs(hash(ROOT))%9973}/{pid}{x}{os.path.basename(src)}"
    res = {"id": pid, "change": x}
    shutil.rmtree(base, ignore_errors=True)
    os.makedirs(base)
    for kind in ("with", "without"):
        d = os.path.join(base, kind)
        run(f"rsync -a --exclude .git /repo/ {d}/")
        if kind == "with":
            rc, out = run(f"patch -p1 --no-backup-if-mismatch < {patch}", cwd=d)
            res["patch_applies"] = rc == 0
            if rc != 0:
                res["detail"] = out[-500:]; print(json.dumps(res, indent=1)); return
    dw, dn = os.path.join(base, "with"), os.path.join(base, "without")
    rc, out = run("go build ./...", cwd=dw); res["builds"] = rc == 0
    rc, out = run(STABLE, cwd=dw); res["stable_suite_passes"] = rc == 0
    if rc != 0: res["stable_tail"] = out[-600:]
    if demo:
        first = open(demo).read().split("\n", 3)[:3]
        m = re.search(r"place in:\s*(\S+)", "\n".join(first))
        place = (m.group(1) if m else "testcases/").strip("/")
        for kind, d in (("with", dw), ("without", dn)):
            os.makedirs(os.path.join(d, place), exist_ok=True)
            shutil.copy(demo, os.path.join(d, place, os.path.basename(demo)))
            rc, out = run(f"go test -vet=off -count=1 -timeout 300s ./{place}/ -run . 2>&1 | tail -15", cwd=d)
            ok = "ok " in out and "FAIL" not in out
            res[f"demo_{kind}_change"] = "pass" if ok else "fail"
            os.remove(os.path.join(d, place, os.path.basename(demo)))
    res["checks"] = {}
    for prop in props:
        env = dict(ENV, VERIF_REPO=dw, VERIF_EVIDENCE_DIR=os.path.join(base, "evidence"), VERIF_REPLAY_DIR=os.path.join(base, "replays"))
        t0 = time.time()
        rc, out = run(f"./check {prop} {tier}", cwd=ROOT, env=env)
        res["checks"][prop] = {"tier": tier, "rc": rc, "caught": rc == 1 and f"VIOLATION property={prop}" in out,
                               "signatures": re.findall(r"signature=(\S+)", out)[:4], "secs": round(time.time()-t0)}
        if rc not in (0, 1): res["checks"][prop]["tail"] = out[-400:]
    tag = hashlib.md5(dw.encode()).hexdigest()[:10]
    for f in (f"bin/vp-{tag}", f"bin/vp-race-{tag}", f"harness/alt-{tag}.mod", f"harness/alt-{tag}.sum"):
        try: os.remove(os.path.join(ROOT, f))
        except FileNotFoundError: pass
    shutil.rmtree(base, ignore_errors=True)
    print(json.dumps(res, indent=1))
main()
