#!/usr/bin/env python3
"""seedsave.py: copy confirmed seeded changes from /tmp/seed/out into /verif/seeded/<ID><X>/ with meta.json,
and write seeded/RESULTS.md from seeded/results/*.json"""
import os, re, json, shutil, glob
OUT = "/tmp/seed/out"
DST = os.path.join(os.path.dirname(os.path.dirname(os.path.abspath(__file__))), "seeded")
NOTES = {
 "C19r4A": "no longer a violation on the current tree: since fix fffe38f (hand-outs capped at the room a table has left) the stale requirement this change creates cannot overfill a table; its demo passes with the change applied",
 "C11r4B": "not covered: needs wager to match + minimum raise to exceed 2^63 (a non-all-in bet above 2^62); the workloads stop at bankrolls around 2^58 because sums of ten such stacks no longer fit an int64 in any implementation, the monitors' included",
 "C17r4A": "not covered: needs ApplyStates with a smaller Max than the manager was created with (a different table size mid-history); the seat histories restore documents of the same size only",
}
 # appended notes
NOTES.update({
 "C19A": "no longer a violation on the current tree: since fix fffe38f hand-outs are capped at the room a table has left, so the inflated requirement this change books cannot overfill a table (caught before that repair); its demo passes with the change applied",
 "C19r2B": "no longer a violation on the current tree (caught before fix fffe38f): the stale requirement is still booked - the demo's intermediate assertion on PlayerCount + Required fails - but no table is asked to hold more than its capacity any more",
 "C08r5B": "not covered: the early deal-in needs the table to collapse to one playing seat while the joiner is still waiting, i.e. other players move between the join and the hand in question - outside the hypothesis 'other players staying put' of the deal-in clause; the position clauses still hold after the change",
 "C14r5A": "not covered: Deal() returning a window of the deck changes no value by itself; it shows only when the caller re-uses the deck slice of a finished hand for the next one, or appends to a returned list - aliasing between the caller's own objects, which the monitors (working on the published state and on JSON copies) do not provoke",
})
NOTES.update({
 "C05r6B": "not covered: needs a table whose card demand exceeds the deck (36 cards, 4 hole cards, 8-9 seats); the unchanged engine panics on such a table at the turn, so the workloads only generate tables the deck can serve (stated assumption of C05/C06) and the clamp is never reached",
 "C17r6A": "not covered: the button jump needs zero playable seats before the move (everybody who played left or sits out, only newcomers on closed seats remain); C17 states where the button goes only 'when at least two players were able to play before moving', and the C08 position clauses still hold after the change",
})
NOTES.update({
 "C07r7A": "not covered: the cached JSON goes stale only when the state changes without an event between two GetStateJSON calls at one wait point - through per-seat PayAnte/PayBlinds on a Player handle or the engine's internal steps (Burn, Deal, SetCurrentPlayer). The operation alphabet posts antes and blinds through the game-level operations; on the unchanged tree the per-seat route cannot finish the step without a manual EmitEvent (and posts a blind again on every call)",
 "C08r7B": "not covered: needs ApplyStates with a smaller Max than the manager was created with and players left on the seats beyond it (see C17r4A); the seat histories restore documents of the table's own size",
 "C10r7B": "not covered: needs a custom ranking table in GameOptions.CombinationPowers (three of a kind above a straight); C03 and C10 quantify over the two shipped tables and the reference evaluator knows exactly those two category orders",
 "C12r7B": "not caught by the C12 check, caught by the C11 check (C11/missing-raise): the change takes the raise off the offer of a player who holds the minimum bet at the start of the round; C12 judges raise requests that are on offer (a request that is not on offer is refused on the unchanged tree as well - C11 states who is offered a raise)",
 "C13r7A": "not covered: needs the antes to be collected seat by seat through Player handles and the hand advanced with a manual EmitEvent(AntePaid) - the engine's internal building blocks, outside the operation alphabet (DESIGN 3.1)",
})
NOTES.update({
 "C03r8A": "not covered: the stale entry becomes valid again only after exactly 65,536 changes of the ranking-table object with the same five cards untouched in between and the other table at the end; the sweeps change tables a few times per hand but never line up a hand with a multiple of 65,536",
 "C04r8A": "not a violation as C04/C05 are read here: with the change a short opening all-in makes its seat the last raiser, so the round closes when the action would return to that all-in seat instead of asking it for one more 'pass'. Every seat with chips has acted since the last wager increase and is level (C05), and the turn still passes clockwise (C04); neither property requires the extra pass of a seat that is all-in",
 "C04r8B": "not a violation as C04/C05 are read here: as C04r8A - the all-in caller is not asked for one more 'pass' and the round closes one pass earlier; everybody with chips has acted and is level",
 "C06r8B": "no longer a violation on the current tree: since fix 9a37c80 ApplyOptions drops the player handles of the previous table, so the handle map the change counts is as long as the table (its demo passes with the change applied)",
 "C07r8A": "not caught by the C07 check, caught by the C03 check (C03/tie-not-equal, C03/order): a per-object memo of evaluations that ignores the ranking table; C03 evaluates every flush and full house through a game object without game id that evaluated the same cards under the other variant first. In C07's differential run the same ordered five cards would have to recur after a move between variants",
 "C13r8B": "not covered: needs a state document whose limit string is neither 'no' nor 'pot' (empty, for instance); the properties quantify over no-limit and pot-limit",
 "C17r8B": "not covered: as C17r6A - the button jump needs zero playable seats before the move, where C17 makes no claim about the seat the button goes to",
})
NOTES.update({
 "C04r9A": "not a violation as C04/C05 are read here: on a table without any blind where at most one seat has chips left after the antes, the pre-flop round is closed without being opened. Nobody acts out of turn, and C05 itself says that no betting round is opened when fewer than two players still have chips",
 "C04r9B": "not a violation as C04/C05 are read here: heads-up with the button all-in and the big blind level or ahead, the round is closed without asking the all-in button to pass and without the big blind's option; fewer than two players have chips, so no betting round needs to be opened (C05), and nobody acts out of turn (C04)",
 "C13r9A": "not caught by the C13 check, caught by the C16 check (C16/total, quick tier since the ante tables were added): the shortcut publishes one pot instead of side pots only when the first and last seat are short of the ante by the same amount and the others' antes average exactly that amount; the totals C13 compares still add up - what is wrong is the partition into side pots, which is C16's subject",
})
NOTES.update({
 "C08r10A": "not covered: as C08r5B - the reserved newcomer's seat is opened by the collapse to one playing seat, i.e. other players leave between his join and the hand in question, outside the hypothesis 'other players staying put' of the deal-in clause; the hand-by-hand waiting watch cannot see it either, because the change flips the very flag (closed seat) that says who is waiting",
})
for _k in ("C04r4B", "C04r6B", "C04r7A"):
    NOTES[_k] = "still caught; its demonstration no longer fails on the current tree: it relied on player handles of a previous, bigger table surviving in a re-used game object, which the repair of D11 (9a37c80, ApplyOptions drops them) removed"
rows = []
for rf in sorted(glob.glob(f"{DST}/results/*.json")):
    key = os.path.basename(rf)[:-5]
    pid, x = key[:3], key[-1]
    try:
        res = json.load(open(rf))
    except Exception:
        continue
    src = f"{OUT}/{pid}"
    m = re.search(r"r(\d+)", key[3:])
    if m:
        src = f"/tmp/seed{m.group(1)}/out/{pid}"
    d = f"{DST}/{key}"
    if os.path.isdir(src):
        os.makedirs(d, exist_ok=True)
        shutil.copy(f"{src}/patch{x}.diff", f"{d}/patch.diff")
        for f in os.listdir(src):
            if f.startswith(f"demo{x}"):
                shutil.copy(f"{src}/{f}", f"{d}/{f}")
        if os.path.exists(f"{src}/notes{x}.md"):
            shutil.copy(f"{src}/notes{x}.md", f"{d}/notes.md")
    notes = open(f"{d}/notes.md").read() if os.path.exists(f"{d}/notes.md") else ""
    def grab_para(text):
        # the paragraph (or bullet) that says what the change needs in order to show
        m = re.search(r"(?is)(needed to manifest|needs to manifest|what it needs|what is needed|to manifest|trigger[s]?|it needs|needs)\**[^:\n]{0,90}:\**\s*(.+?)(\n\s*\n|\n\s*[-*#] ?\**[A-Z]|\Z)", text)
        if m:
            return re.sub(r"\s+", " ", m.group(2)).strip(" -*")[:900]
        for sent in re.split(r"(?<=[.;])\s+", text):
            if re.search(r"(?i)\b(needs|only when|only if|requires|must)\b", sent):
                return re.sub(r"\s+", " ", sent).strip(" -*")[:600]
        return ""
    def grab(*keys):
        for line in notes.splitlines():
            l = line.strip(" -*")
            for k in keys:
                if l.lower().startswith(k):
                    return re.sub(r"^[^:]*:\**\s*", "", l).strip()
        return ""
    title = notes.splitlines()[0].lstrip("# ").strip() if notes else ""
    confirmed = bool(res.get("patch_applies") and res.get("builds") and res.get("stable_suite_passes") and res.get("demo_with_change") == "fail" and res.get("demo_without_change") == "pass")
    meta = {
        "property": pid, "change": x, "title": title,
        "breaks_clause": grab("clause broken", "**clause broken", "which clause"),
        "needs_to_manifest": grab("what is needed to manifest", "**what is needed", "what it needs", "trigger", "needs") or grab_para(notes),
        "confirmed_here": confirmed,
        "confirmation": {k: res.get(k) for k in ("patch_applies", "builds", "stable_suite_passes", "demo_with_change", "demo_without_change")},
        "what_was_run": "tools/seedcheck.py %s %s : scratch copies of /repo under /tmp (with / without the patch), go build ./..., stable suite (combination pot regulator settlement testcases), the demo in both copies, then VERIF_REPO=<patched copy> ./check <ID> quick" % (pid, x),
        "checks": res.get("checks"),
        "author": "independent sub-agent given only the property text and a private worktree",
    }
    if key in NOTES:
        meta["note"] = NOTES[key]
    json.dump(meta, open(f"{d}/meta.json", "w"), indent=1)
    c = list(res.get("checks", {}).items())
    rows.append((key, title, confirmed, c))
lines = ["# Seeded changes (written by independent sub-agents) vs the checks", "",
         "| change | what it is | confirmed (builds, 61 tests pass, demo fails/passes) | check verdict (quick) | signatures |", "|---|---|---|---|---|"]
caught = 0
for key, title, conf, c in rows:
    v = "; ".join(f'{p}: {"caught" if r["caught"] else "MISSED"} ({r["secs"]}s)' for p, r in c)
    sig = "; ".join(", ".join(r["signatures"][:2]) for p, r in c)
    if any(r["caught"] for p, r in c): caught += 1
    lines.append(f"| {key} | {title[:110]}{(' -- ' + NOTES[key]) if key in NOTES else ''} | {'yes' if conf else 'NO'} | {v} | {sig} |")
lines += ["", f"{len(rows)} changes, {caught} caught."]
open(f"{DST}/RESULTS.md", "w").write("\n".join(lines) + "\n")
print(len(rows), "saved;", caught, "caught")
