#!/bin/bash
# seedbatch.sh [-r ROUND] ID...   evaluate changes A and B of each id (scratch copies, VERIF_REPO), store results
# ROUND 1 (default) reads /tmp/seed/out, ROUND 2 reads /tmp/seed2/out and stores results as <ID>r2<X>
ROUND=1
if [ "$1" = "-r" ]; then ROUND="$2"; shift 2; fi
SRC=/tmp/seed/out; SUF=""
if [ "$ROUND" != 1 ]; then SRC=/tmp/seed$ROUND/out; SUF="r$ROUND"; fi
for id in "$@"; do for x in A B; do
  [ -f $SRC/$id/patch$x.diff ] || { echo "$id$x: no patch"; continue; }
  key="$id$SUF$x"
  python3 /verif/tools/seedcheck.py $id $x --src $SRC/$id > /verif/seeded/results/$key.json 2>&1
  python3 - "$key" <<'PY'
import json,sys
k=sys.argv[1]
try:
    r=json.load(open('/verif/seeded/results/%s.json'%k))
    c=list(r['checks'].values())[0]
    print(k, 'valid=%s'%(r.get('builds') and r.get('stable_suite_passes') and r.get('demo_with_change')=='fail' and r.get('demo_without_change')=='pass'), 'CAUGHT' if c['caught'] else 'MISSED rc=%d'%c['rc'], c['signatures'][:2], '%ds'%c['secs'])
except Exception as e:
    print(k,'ERROR',e, open('/verif/seeded/results/%s.json'%k).read()[-300:])
PY
done; done
