#!/bin/bash
# seedbatch.sh ID...   evaluate changes A and B of each id (scratch copies, VERIF_REPO), store results
for id in "$@"; do for x in A B; do
  [ -f /tmp/seed/out/$id/patch$x.diff ] || { echo "$id$x: no patch"; continue; }
  python3 /verif/tools/seedcheck.py $id $x > /verif/seeded/results/$id$x.json 2>&1
  python3 - "$id$x" <<'PY'
import json,sys
k=sys.argv[1]
try:
    r=json.load(open('/verif/seeded/results/%s.json'%k))
    c=list(r['checks'].values())[0]
    print(k, 'valid=%s'%(r.get('builds') and r.get('stable_suite_passes') and r.get('demo_with_change')=='fail' and r.get('demo_without_change')=='pass'), 'CAUGHT' if c['caught'] else 'MISSED rc=%d'%c['rc'], c['signatures'][:2], '%ds'%c['secs'])
except Exception as e:
    print(k,'ERROR',e, open('/verif/seeded/results/%s.json'%k).read()[-300:])
PY
done; done
