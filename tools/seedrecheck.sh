#!/bin/bash
# seedrecheck.sh [key...]: re-run every saved seeded change (seeded/<key>/patch.diff) through its property's quick check
cd "$(dirname "$0")/.."
ROOT="$(pwd)"
keys="$@"; [ -z "$keys" ] && keys=$(ls -d seeded/C* | xargs -n1 basename)
for k in $keys; do
  id=${k:0:3}; x=${k: -1}
  python3 tools/seedcheck.py $id $x --src $ROOT/seeded/$k > seeded/results/$k.json 2>&1
  python3 - "$k" <<'PY'
import json,sys
k=sys.argv[1]
try:
    r=json.load(open('seeded/results/%s.json'%k)); c=list(r['checks'].values())[0]
    print(k, 'valid=%s'%(r.get('builds') and r.get('stable_suite_passes') and r.get('demo_with_change')=='fail' and r.get('demo_without_change')=='pass'), 'CAUGHT' if c['caught'] else 'MISSED rc=%d'%c['rc'], c['signatures'][:2], '%ds'%c['secs'])
except Exception as e:
    print(k,'ERROR',e)
PY
done
python3 tools/seedsave.py
