#!/opt/veriftools/pyvenv/bin/python
import json, jsonschema, glob, sys
m=json.load(open('/verif/MANIFEST.json')); s=json.load(open('/root/.vp/MANIFEST.schema.json'))
jsonschema.validate(m,s); print("manifest valid")
s=json.load(open('/root/.vp/EVIDENCE.schema.json'))
bad=0
for f in sorted(glob.glob('/verif/evidence/*.json')):
    try:
        d=json.load(open(f)); jsonschema.validate(d,s)
        c=d['coverage']; print(f.split('/')[-1], d['tier'], 'ok eval=%d nontriv=%d verdict=%s wall=%.0fs'%(c['evaluations'],c['distinct_nontrivial'],c.get('verdict'),d['wall_s']))
    except Exception as e:
        bad+=1; print(f,"INVALID",str(e)[:300])
sys.exit(1 if bad else 0)
